"""The string machinery decided semantically (C02.a/b/c/e, imported by C01 and C03): str_to_lines, escape_str_for_quote,
determine_quote_strategy, highlight_escapes and pretty_single_line_str are *interpreted* (no execution of the package) on a corpus of
small concrete str and bytes values chosen for their structure - words and blank runs, no blanks, no separators at all, both quote
characters in every proportion, backslashes before quotes, control / zero-width / astral characters, high bytes and runs of
non-word bytes - for several widths and both quote characters.  Standard-library calls on constants (re, str / bytes methods, repr)
are evaluated as the library defines them.  Compared with the specification:

  pieces:   ''.join(str_to_lines(width, quote, s)) == s, no piece is empty, every piece has the type of s
  escaping: quote + escape_str_for_quote(quote, x) + quote evaluates (ast.literal_eval) to x, for the whole value and for every piece
  quotes:   determine_quote_strategy returns one of the two quote characters
  display:  the text of highlight_escapes(t) is t; the text of pretty_single_line_str(s, ...) evaluates to s"""
import ast

from engine import docterm as D
from engine.interp import (Const, Sym, SymStr, ListV, TupleV, DocV, NONE, Undecided, Raised, PathLimit, LoopLimit, Interp, prov)
from engine.loader import AnalysisError

TEXTS = [
    'hello world foo', 'aaaaaaaaaaaaaaaa', ' leading and trailing ', 'wide    gaps\there', 'path/to/some-file.name.ext', 'a,b;c:d', 'x', '',
    "it's", 'say "hi"', "it's a \"quoted\" word", "''\"", "'\"\"", "o\\'neil said \"no\"", 'back\\slash and \\" pair', "both ' and \" and \\",
    "customer's final \"offer\" isn't it's", 'multi\nline\ntext', 'tab\tand\rcr', 'zero​width  sep', 'snow☃man \U0001f600 face', '\x00\x01nul',
    'ends with backslash\\', '"', "'", "\\", '  ', "a'b" * 3, 'q"q' * 3,
    "'tis Pat's dog's 5\" lead", "the 'a' and the 'b' and 'c' in \"abc\"",
    # runs of combining marks (longer than any piece), accents, wide and ambiguous-width characters
    'Z' + '\u0301' * 16 + ' tail', 'cafe\u0301 nai\u0308ve re\u0301sume\u0301', '\u6f22\u5b57\u304b\u306a \u00b1\u00b0 mixed',
]
BYTES = [b"'x' 'y' 'z' \"w\" and some more bytes", b'bytes and more', b'nospacesatallhere', b'https://www.example.com/a&&b', b"it's \"q\"", b'\x00\x00\xff\xfe high', b'-----', b'', b'x', b"'\"", b'back\\slash \\" q',
         b'caf\xc3\xa9 au lait', b'a\nb\tc']
WIDTHS = [1, 2, 3, 5, 8, 13]


def show(x, limit=60):
    """long values are shown by their shape"""
    r = repr(x)
    if len(r) <= limit:
        return r
    import itertools
    runs = [(k, len(list(g))) for k, g in itertools.groupby(x)]
    if len(runs) <= 8:
        parts = []
        for k, n_ in runs:
            k = bytes([k]) if isinstance(x, bytes) else k
            parts.append(repr(k) if n_ == 1 else '%r*%d' % (k, n_))
        return '+'.join(parts)
    return '%s...%s (%d long)' % (r[:limit // 2], r[-limit // 3:], len(x))


def show_list(xs):
    if len(xs) > 6:
        return '[%s, ... %d pieces]' % (', '.join(show(x, 30) for x in xs[:4]), len(xs))
    return '[%s]' % ', '.join(show(x, 40) for x in xs)


def _scales(repo, m, fn):
    """size constants in the splitter and the module functions it reaches"""
    import ast as _ast
    from engine import thresholds
    from engine.astutil import call_name
    todo, seen = [fn], {}
    mods = [m, repo.module('utils')]
    while todo:
        f = todo.pop()
        if f.qualname in seen:
            continue
        seen[f.qualname] = f
        for c in _ast.walk(f.node):
            if isinstance(c, _ast.Call):
                nm = call_name(c).split('.')[-1]
                for mm in mods:
                    g = mm.funcs.get(nm)
                    if g is not None and g.qualname not in seen:
                        todo.append(g)
    ins, bey = {}, {}
    for mm in mods:
        a, b = thresholds.mine([mm], fns=[f.node for f in seen.values() if f.module is mm], most=512)
        ins.update(a)
        bey.update(b)
    return ins, bey


def _lit_eval(text):
    try:
        return True, ast.literal_eval(text)
    except Exception as e:      # the specification side: not a valid literal
        return False, '%s: %s' % (type(e).__name__, e)


def run(repo, rep, rules=None):
    rules = rules or {'pieces': 'C02.b', 'nonempty': 'C02.c', 'escaping': 'C02.e', 'quotes': 'C02.e', 'display': 'C02.a'}
    m = repo.module('prettyprinter')
    need = ['str_to_lines', 'escape_str_for_quote', 'determine_quote_strategy', 'highlight_escapes', 'pretty_single_line_str']
    fs = {k: m.funcs.get(k) for k in need}
    missing = [k for k, v in fs.items() if v is None]
    if missing:
        raise AnalysisError('string helpers vanished: %s' % missing)
    it = Interp(repo, {}, max_paths=4)
    it.concrete_context = True
    it.max_while = 4000
    it.eager_generators = {f.name for f in m.funcs.values()} | {f.name for f in repo.module('utils').funcs.values()}
    stats = {k: [0, []] for k in ('pieces', 'nonempty', 'escaping', 'quotes', 'display', 'terminates')}
    und = []

    def call(name, args, kw=None):
        it.paths_run = 0
        prs = it.explore(fs[name], args, kw or {})
        if len(prs) != 1:
            raise Undecided('%s forks into %d abstract paths on constants (%s)' % (name, len(prs), [p.fact_text() for p in prs][:2]))
        if prs[0].raised is not None:
            raise Raised(prs[0].raised.what, prs[0].raised.lineno)
        return prs[0].value

    def const_items(v):
        items = it.iterate(v)
        if not all(isinstance(x, Const) for x in items):
            raise Undecided('pieces are not constants: %s' % [prov(x) for x in items if not isinstance(x, Const)][:2])
        return [x.v for x in items]

    def escape_ok(q, x, what):
        try:
            esc = call('escape_str_for_quote', [Const(q), Const(x)])
        except Raised as e:
            stats['escaping'][1].append('escape_str_for_quote(%r, %r) raises %s' % (q, x, e.what))
            return
        if not (isinstance(esc, Const) and isinstance(esc.v, str)):
            raise Undecided('escape_str_for_quote(%r, %r) gives %s' % (q, x, prov(esc)))
        lit = ('b' if isinstance(x, bytes) else '') + q + esc.v + q
        ok, val = _lit_eval(lit)
        if ok and val == x and type(val) is type(x):
            stats['escaping'][0] += 1
        else:
            stats['escaping'][1].append('%s %r escaped for the quote %s gives the literal %s, which %s' % (
                what, x, q, lit, ('evaluates to %r' % (val,)) if ok else ('is not a valid literal (%s)' % val)))

    def split_ok(w, qq, s, scaled=None):
        try:
            pieces = const_items(call('str_to_lines', [Const(w), Const(qq), Const(s)]))
        except Raised as e:
            stats['pieces'][1].append('str_to_lines(%d, %r, %s) raises %s' % (w, qq, show(s), e.what))
            return None
        except LoopLimit as e:
            # a concrete text and a loop bound far above its length: the splitter makes no progress
            stats['pieces'][1].append('str_to_lines(%d, %r, %s) does not terminate (%s): pformat of such a value hangs' % (w, qq, show(s), e))
            stats['terminates'][1].append(stats['pieces'][1][-1])
            return None
        stats['terminates'][0] += 1
        empty = s[:0]
        joined = empty.join(pieces) if all(type(p) is type(s) for p in pieces) else None
        if joined == s:
            stats['pieces'][0] += 1
        else:
            stats['pieces'][1].append('str_to_lines(%d, %r, %s) yields %s: the pieces %s%s' % (
                w, qq, show(s), show_list(pieces), 'are not all %s' % type(s).__name__ if joined is None else 'concatenate to %s' % show(joined),
                (' (scenario scaled past the size constant %s)' % scaled) if scaled else ''))
        if all(len(p) > 0 for p in pieces):
            stats['nonempty'][0] += 1
        else:
            stats['nonempty'][1].append('str_to_lines(%d, %r, %s) yields an empty piece: %s' % (w, qq, show(s), show_list(pieces)))
        return pieces
    for s in TEXTS + BYTES:
        try:
            # the quote chosen for the whole value
            q = call('determine_quote_strategy', [Const(s)])
            if isinstance(q, Const) and q.v in ("'", '"'):
                stats['quotes'][0] += 1
                quotes = [q.v] + [x for x in ("'", '"') if x != q.v]
            else:
                stats['quotes'][1].append('determine_quote_strategy(%r) returns %s' % (s, prov(q)))
                quotes = ["'", '"']
            for qi, qq in enumerate(quotes):
                escape_ok(qq, s, 'the value')
                for w in WIDTHS:
                    pieces = split_ok(w, qq, s)
                    if pieces is None:
                        continue
                    if qi == 0 and w in (3, 8):
                        for pc in pieces[:6]:
                            escape_ok(qq, pc, 'a piece of %r split at width %d,' % (s, w))
            # display
            if isinstance(s, str) and s:
                hd = call('highlight_escapes', [Const(s)])
                txt = D.text_of(hd.t) if isinstance(hd, DocV) else (hd.v if isinstance(hd, Const) else None)
                if txt == s:
                    stats['display'][0] += 1
                else:
                    stats['display'][1].append('highlight_escapes(%r) shows %r: marking escape sequences must not change the text' % (s, txt if txt is not None else prov(hd)))
            sd = call('pretty_single_line_str', [Const(s), Const(4)])
            txt = D.text_of(sd.t) if isinstance(sd, DocV) else None
            if txt is None:
                raise Undecided('pretty_single_line_str(%r) is not plain text: %s' % (s, prov(sd)))
            ok, val = _lit_eval(txt)
            if ok and val == s and type(val) is type(s):
                stats['display'][0] += 1
            else:
                stats['display'][1].append('pretty_single_line_str(%r) prints %s, which %s' % (s, txt, ('evaluates to %r' % (val,)) if ok else 'is not a valid literal (%s)' % val))
        except (Undecided, PathLimit) as e:
            if len(und) < 4:
                und.append('%s (value %r)' % (e, s))
    # scenarios scaled past every size constant the splitter (and what it calls) compares against: a branch taken only for "more than N"
    # characters / lines is run with more than N
    scales, beyond = _scales(repo, m, fs['str_to_lines'])
    rep.note('size constants read by the splitter: %s%s' % (
        {k: v[:2] for k, v in scales.items()} or 'none', ('; beyond the model: %s' % beyond) if beyond else ''))
    for T in scales:
        for w in (1, 5, 13):
            for L in sorted({T + 1, T * w + 1, (T + 1) * w + 2}):
                it.max_while = 4000 + 8 * L
                for s in ('NAME' + ' ' * L + 'Smith', 'a' * L, 'Title' + '=' * L, 'x' * L + ' y z', 'ab ' * (L // 3 + 1), b'key:' + b' ' * L + b'value'):
                    try:
                        split_ok(w, "'", s, scaled='%d at %s' % (T, scales[T][0]))
                    except (Undecided, PathLimit) as e:
                        if len(und) < 4:
                            und.append('%s (value %s)' % (e, show(s)))
    it.max_while = 4000
    for T, where_ in beyond.items():
        rep.undecided(list(rules.values())[0], 'string-model-scale', fs['str_to_lines'].where,
                      'the splitter decides on the size constant %d (%s): no scenario of the model is that large' % (T, where_[0]))
    names = {'pieces': 'pieces-concatenate-to-the-value', 'nonempty': 'no-empty-piece', 'escaping': 'escaped-text-evaluates-back',
             'quotes': 'quote-is-a-quote-character', 'display': 'displayed-literal-evaluates-back', 'terminates': 'splitter-terminates'}
    floors = {'pieces': 300, 'nonempty': 300, 'escaping': 100, 'quotes': 30, 'display': 50, 'terminates': 300}
    n = 0
    where = fs['str_to_lines'].where
    for k, rule in rules.items():
        okc, bad = stats[k]
        n += 1
        if bad:
            for i, d in enumerate(bad[:4]):
                rep.fail(rule, names[k] if i == 0 else '%s#%d' % (names[k], i + 1), where, d)
        else:
            rep.check(okc >= floors[k] or bool(und), rule, names[k], where, 'held on %d interpreted cases' % okc, 'only %d cases could be compared' % okc, nontrivial=True)
    for u in und:
        n += 1
        rep.undecided(list(rules.values())[0], 'string-model-interpretable', where, u)
    rep.count(sum(v[0] for v in stats.values()))
    return n


def one_line_when_it_fits(repo, rep, rule):
    """C06 for strings: the layout-time evaluator of the string printer returns the single-line literal whenever the page and the
    ribbon are at least as wide as that literal (interpreted on the corpus; the width handed in is exactly the literal's width)"""
    from . import docmodel as DM
    w = DM.World(repo)
    m = repo.module('prettyprinter')
    ps = m.funcs.get('pretty_str')
    if ps is None:
        raise AnalysisError('pretty_str vanished')
    w.it.concrete_classes |= {'PrettyContext'}
    w.it.eager_generators = {f.name for f in m.funcs.values()} | {f.name for f in repo.module('utils').funcs.values()}
    ok, bad, und = 0, [], []
    from engine.interp import TypeV, ObjV, FuncV
    for s in [x for x in TEXTS + BYTES if x]:
        try:
            ctx = w.it.construct(TypeV('PrettyContext'), [], {'indent': Const(4), 'depth_left': Const(5)}, None)
            flat = w.call(m, 'pretty_single_line_str', [Const(s), Const(4)])
            flat_texts = DM.denote_fill(w.term_of(flat))
            if len(flat_texts) != 1:
                raise Undecided('single-line literal has %d layouts' % len(flat_texts))
            ftext = next(iter(flat_texts))
            L = len(ftext)
            doc = w.call(m, 'pretty_str', [Const(s), ctx])
            fn = w.it.getattr(doc, 'fn', None) if isinstance(doc, ObjV) else None
            if not isinstance(fn, FuncV):
                raise Undecided('pretty_str does not return a contextual document (%s)' % prov(doc))
            # at column 0, and as the sole element of a list (one column in, inside the list's nest) on a page that is exactly as wide as
            # the one-line form of the whole list
            for indent_, column_, page_ in ((0, 0, L), (0, 0, L + 3), (4, 1, L + 2), (2, 1, L + 2)):
                extra = page_ - L
                w.it.paths_run = 0
                prs = w.it.explore(fn.fn, [Const(indent_), Const(column_), Const(page_), Const(page_)], {}, closure=fn.env)
                if len(prs) != 1 or prs[0].raised is not None:
                    raise Undecided('the evaluator forks / raises (%s)' % (prs[0].raised.what if prs and prs[0].raised else len(prs)))
                texts = DM.denote_fill(w.term_of(prs[0].value))
                if texts == {ftext}:
                    ok += 1
                else:
                    bad.append('%r: its single-line literal %s is %d columns wide, but at column %d (indentation %d) of a page and ribbon %d columns wide '
                               'the evaluator returns %s' % (s, ftext, L, column_, indent_, page_, sorted(texts)[:1]))
        except Raised as e:
            bad.append('%r: raises %s' % (s, e.what))
        except (Undecided, PathLimit) as e:
            if len(und) < 4:
                und.append('%s (value %r)' % (e, s))
    n = 1
    if bad:
        for i, d in enumerate(bad[:4]):
            rep.fail(rule, 'string-one-line-when-it-fits' if i == 0 else 'string-one-line-when-it-fits#%d' % (i + 1), ps.where, d)
    else:
        rep.check(ok >= 40 or bool(und), rule, 'string-one-line-when-it-fits', ps.where, 'held on %d interpreted evaluations' % ok,
                  'only %d evaluations could be compared' % ok, nontrivial=True)
    for u in und:
        n += 1
        rep.undecided(rule, 'string-evaluator-interpretable', ps.where, u)
    return n
