#!/bin/bash
# runs the pinned test suite (guard off) in parallel and prints pass/fail summary vs BASELINE.json
cd /repo && /venv/bin/python -m pytest -q -p no:cacheprovider --timeout=900 --continue-on-collection-errors -n ${JOBS:-12} --junitxml=/tmp/base_junit.xml >/tmp/base_out.txt 2>&1
/venv/bin/python - <<'P'
import json, xml.etree.ElementTree as ET
base=set(json.load(open('/root/.vp/BASELINE.json'))['stable_pass'])
t=ET.parse('/tmp/base_junit.xml')
ok=set()
for tc in t.iter('testcase'):
    name=tc.get('classname','')+'::'+tc.get('name','')
    if not any(c.tag in('failure','error','skipped') for c in tc): ok.add(name)
miss=sorted(base-ok)
print('baseline tests passing: %d/%d'%(len(base&ok),len(base)))
for m in miss: print('  MISSING',m)
P
