"""Repository-specific fact extraction shared by several checks: the closed set of document
kinds, the three stack machines, role-based anchors in prettyprinter.py."""
import ast

from .astutil import src, dotted, call_name
from .loader import AnalysisError, static_registry
from .switch import find_machine, ShapeUnrecognised, NullMachine


def doc_kinds(repo):
    """closed set of node kinds a layout switch can meet, from doctypes.py:
    returns (kinds, singleton_of_class) where kinds is a sorted list like
    ['AlwaysBreak', ..., 'HARDLINE', 'NIL', 'str']"""
    m = repo.module('doctypes')
    if 'Doc' not in m.classes:
        raise AnalysisError('doctypes.Doc vanished')
    sub = set()
    changed = True
    while changed:
        changed = False
        for c in m.classes.values():
            if c.name in sub or c.name == 'Doc':
                continue
            if any(b == 'Doc' or b in sub for b in c.bases):
                sub.add(c.name)
                changed = True
    singleton = {}
    for name, vals in m.assigns.items():
        v = vals[-1]
        if isinstance(v, ast.Call) and isinstance(v.func, ast.Name) and v.func.id in sub \
                and not v.args and not v.keywords:
            singleton[v.func.id] = name
    kinds = {'str'}
    for c in sub:
        kinds.add(singleton.get(c, c))
    return sorted(kinds), singleton


def machines(repo):
    from .linear import set_helper_resolver
    lay = repo.module('layout')
    set_helper_resolver(lambda name: lay.funcs[name].node if name in lay.funcs and lay.funcs[name].parent is None
                        and name not in ('best_layout', 'fast_fitting_predicate', 'smart_fitting_predicate') else None)
    out = {}
    for name in ('best_layout', 'fast_fitting_predicate', 'smart_fitting_predicate'):
        try:
            out[name] = find_machine(repo.func('layout', name))
        except ShapeUnrecognised as e:
            out[name] = NullMachine(repo.func('layout', name), str(e))
    return out


def mode_constants(repo):
    m = repo.module('layout')
    vals = {}
    for n in ('BREAK_MODE', 'FLAT_MODE'):
        if n not in m.assigns:
            raise AnalysisError('layout.%s vanished' % n)
        vals[n] = src(m.assigns[n][-1])
    if vals['BREAK_MODE'] == vals['FLAT_MODE']:
        raise AnalysisError('BREAK_MODE and FLAT_MODE have the same value')
    return vals


def wrapper_function(repo):
    """The function every registered printer runs under: X in
    ``pretty_dispatch.register(type, partial(X, fn))`` inside register_pretty."""
    m = repo.module('prettyprinter')
    rp = m.funcs.get('register_pretty')
    cands = []
    if rp is not None:
        for c in ast.walk(rp.node):
            if isinstance(c, ast.Call) and call_name(c).endswith('.register') and len(c.args) == 2:
                a = c.args[1]
                if isinstance(a, ast.Call) and call_name(a) == 'partial' and a.args \
                        and isinstance(a.args[0], ast.Name):
                    cands.append(a.args[0].id)
    names = set(cands)
    if len(names) != 1:
        # fall back to the base dispatch: _BASE_DISPATCH = partial(X, base_printer)
        cands = []
        for name, vals in m.assigns.items():
            v = vals[-1]
            if isinstance(v, ast.Call) and call_name(v) == 'partial' and len(v.args) == 2 \
                    and isinstance(v.args[0], ast.Name) and 'DISPATCH' in name.upper():
                cands.append(v.args[0].id)
        names = set(cands)
    if len(names) != 1:
        raise AnalysisError('cannot identify the printer wrapper: neither register_pretty nor the base '
                            'dispatch goes through partial(wrapper, fn) (found %s)' % sorted(names))
    r = repo.resolve(m, cands[0])
    if not r or r[0] != 'func':
        raise AnalysisError('printer wrapper %s is not a package function' % cands[0])
    return r[1]


def registry(repo):
    return static_registry(repo)


def printers_for(repo, key):
    return [r for r in registry(repo) if r.key == key]
