"""E6 (part 1) -- the doc-shape domain: terms and queries.

t ::= Text(s) | Lit(prov) | Sub(prov) | Cmt(prov) | NIL | HL | FC(broken, flat) | Cat[t...]
    | Nest(amount, t) | Grp(t) | AB(t) | Ann(label, t) | Fill[t...] | Ctx(closure)
    | Call(fn, args, kwargs, ...) | Seq(left, items, right, dangle, force) | Opaque(reason)

``Call`` and ``Seq`` are the results of the package's own builders when a *printer* is
interpreted (the builders themselves are interpreted separately, down to the primitive
combinators, so each level is checked against the level below it).
"""


class T:
    kind = 'T'
    __slots__ = ()

    def key(self):
        raise NotImplementedError

    def __eq__(self, other):
        return isinstance(other, T) and self.key() == other.key()

    def __hash__(self):
        return hash(self.key())

    def __repr__(self):
        return show(self)


class Text(T):
    kind = 'Text'
    __slots__ = ('s',)

    def __init__(self, s):
        self.s = s

    def key(self):
        return ('Text', self.s)


class Lit(T):
    """symbolic text: a string computed at run time (repr(value), a formatted name, one string
    piece).  ``role`` distinguishes e.g. string-literal pieces from identifiers."""
    kind = 'Lit'
    __slots__ = ('prov', 'role')

    def __init__(self, prov, role='text'):
        self.prov = prov
        self.role = role

    def key(self):
        return ('Lit', self.prov, self.role)


class Sub(T):
    """opaque sub-document: the print of a sub-value (provenance = value expr + context)"""
    kind = 'Sub'
    __slots__ = ('prov', 'ctx', 'commented')

    def __init__(self, prov, ctx=None, commented=None):
        self.prov = prov
        self.ctx = ctx                  # description of the context it was printed with
        self.commented = commented      # True / False / None (unknown)

    def key(self):
        return ('Sub', self.prov)


class Cmt(T):
    """commentdoc(text): a '#'-comment running to the end of its line(s)"""
    kind = 'Cmt'
    __slots__ = ('prov',)

    def __init__(self, prov):
        self.prov = prov

    def key(self):
        return ('Cmt', self.prov)


class _Single(T):
    __slots__ = ('name',)

    def __init__(self, name):
        self.name = name

    def key(self):
        return (self.name,)

    @property
    def kind(self):
        return self.name


NIL = _Single('NIL')
HL = _Single('HL')


class FC(T):
    kind = 'FC'
    __slots__ = ('broken', 'flat')

    def __init__(self, broken, flat):
        self.broken = broken
        self.flat = flat

    def key(self):
        return ('FC', self.broken.key(), self.flat.key())


class Cat(T):
    kind = 'Cat'
    __slots__ = ('items',)

    def __init__(self, items):
        self.items = list(items)

    def key(self):
        return ('Cat',) + tuple(i.key() for i in self.items)


class Fill(T):
    kind = 'Fill'
    __slots__ = ('items',)

    def __init__(self, items):
        self.items = list(items)

    def key(self):
        return ('Fill',) + tuple(i.key() for i in self.items)


class Nest(T):
    kind = 'Nest'
    __slots__ = ('amount', 'child')

    def __init__(self, amount, child):
        self.amount = amount        # text of the abstract amount, e.g. 'ctx.indent'
        self.child = child

    def key(self):
        return ('Nest', self.amount, self.child.key())


class Grp(T):
    kind = 'Grp'
    __slots__ = ('child',)

    def __init__(self, child):
        self.child = child

    def key(self):
        return ('Grp', self.child.key())


class AB(T):
    kind = 'AB'
    __slots__ = ('child',)

    def __init__(self, child):
        self.child = child

    def key(self):
        return ('AB', self.child.key())


class Ann(T):
    kind = 'Ann'
    __slots__ = ('label', 'child')

    def __init__(self, label, child):
        self.label = label          # 'Token.PUNCTUATION' | ('comment', prov) | other text
        self.child = child

    def key(self):
        return ('Ann', self.label, self.child.key())

    @property
    def is_comment(self):
        return isinstance(self.label, tuple) and self.label[0] == 'comment'


class Ctx(T):
    kind = 'Ctx'
    __slots__ = ('closure',)

    def __init__(self, closure):
        self.closure = closure

    def key(self):
        return ('Ctx', id(self.closure))


class Call(T):
    """result of build_fncall / pretty_call_alt seen from a printer"""
    kind = 'Call'
    __slots__ = ('fn', 'args', 'kwargs', 'hug', 'trailing', 'via', 'ctx')

    def __init__(self, fn, args, kwargs, hug=False, trailing=None, via='build_fncall', ctx=None):
        self.fn = fn              # provenance text of the callable / fndoc
        self.args = list(args)    # terms (build_fncall) or value descriptions (pretty_call_alt)
        self.kwargs = list(kwargs)
        self.hug = hug
        self.trailing = trailing
        self.via = via
        self.ctx = ctx

    def key(self):
        return ('Call', self.fn, tuple(_k(a) for a in self.args),
                tuple((k, _k(v)) for k, v in self.kwargs), self.hug, self.trailing, self.via)


class Seq(T):
    """result of sequence_of_docs seen from a printer"""
    kind = 'Seq'
    __slots__ = ('left', 'items', 'right', 'dangle', 'force')

    def __init__(self, left, items, right, dangle, force):
        self.left = left
        self.items = list(items)
        self.right = right
        self.dangle = dangle
        self.force = force

    def key(self):
        return ('Seq', self.left.key(), tuple(i.key() for i in self.items), self.right.key(),
                str(self.dangle), str(self.force))


class Opaque(T):
    kind = 'Opaque'
    __slots__ = ('reason',)

    def __init__(self, reason):
        self.reason = reason

    def key(self):
        return ('Opaque', self.reason)


def _k(x):
    return x.key() if isinstance(x, T) else ('v', str(x))


# ---------------------------------------------------------------------------------------
def show(t, depth=0):
    if depth > 12:
        return '...'
    d = depth + 1
    if isinstance(t, Text):
        return repr(t.s)
    if isinstance(t, Lit):
        return '<%s:%s>' % (t.role, t.prov)
    if isinstance(t, Sub):
        return 'Sub(%s)' % t.prov
    if isinstance(t, Cmt):
        return 'Cmt(%s)' % t.prov
    if t is NIL:
        return 'NIL'
    if t is HL:
        return 'HL'
    if isinstance(t, FC):
        return 'FC(broken=%s, flat=%s)' % (show(t.broken, d), show(t.flat, d))
    if isinstance(t, Cat):
        return '[' + ' '.join(show(i, d) for i in t.items) + ']'
    if isinstance(t, Fill):
        return 'Fill[' + ' '.join(show(i, d) for i in t.items) + ']'
    if isinstance(t, Nest):
        return 'Nest(%s, %s)' % (t.amount, show(t.child, d))
    if isinstance(t, Grp):
        return 'Grp(%s)' % show(t.child, d)
    if isinstance(t, AB):
        return 'AB(%s)' % show(t.child, d)
    if isinstance(t, Ann):
        lab = t.label if not isinstance(t.label, tuple) else '#'.join(str(x) for x in t.label)
        return 'Ann(%s, %s)' % (lab, show(t.child, d))
    if isinstance(t, Ctx):
        return 'Ctx(...)'
    if isinstance(t, Call):
        return 'Call[%s](%s%s)%s' % (
            t.fn, ', '.join(show(a, d) if isinstance(a, T) else str(a) for a in t.args),
            ''.join(', %s=%s' % (k, show(v, d) if isinstance(v, T) else str(v)) for k, v in t.kwargs),
            '{hug}' if t.hug else '')
    if isinstance(t, Seq):
        return 'Seq(%s %s %s dangle=%s force=%s)' % (
            show(t.left, d), ' , '.join(show(i, d) for i in t.items), show(t.right, d), t.dangle, t.force)
    if isinstance(t, Opaque):
        return 'Opaque(%s)' % t.reason
    return '?'


# ---------------------------------------------------------------------------------------
# normal-form helpers (mirror doctypes.normalize as far as always_break hoisting goes)

def contains_forced_break(t):
    """does normalisation hoist an AlwaysBreak out of t?  (through Cat, Nest, Grp, AB; not
    through Ann, FC, Ctx -- Fill only for direct items)"""
    if isinstance(t, AB):
        return True
    if isinstance(t, Cat):
        return any(contains_forced_break(i) for i in t.items)
    if isinstance(t, (Nest, Grp)):
        return contains_forced_break(t.child)
    if isinstance(t, Fill):
        return any(isinstance(i, AB) for i in t.items)
    return False


def groups(t, out=None):
    out = [] if out is None else out
    if isinstance(t, Grp):
        out.append(t)
        groups(t.child, out)
    elif isinstance(t, (Cat, Fill)):
        for i in t.items:
            groups(i, out)
    elif isinstance(t, (Nest, AB, Ann)):
        groups(t.child, out)
    elif isinstance(t, FC):
        groups(t.broken, out)
        groups(t.flat, out)
    return out


def linearise(t, mode, choose):
    """atoms of t in document order.  mode in {'flat', 'break'}; ``choose(grp)`` returns the
    mode for a group met in break mode (a group containing a forced break is always broken).
    Atoms: Text / Lit / Sub / Cmt / HL / Call / Seq / Ctx / Opaque, plus ('ann', label) markers."""
    out = []

    def go(t, mode):
        if t is NIL:
            return
        if t is HL or isinstance(t, (Text, Lit, Sub, Cmt, Ctx, Opaque, Call, Seq)):
            out.append(t)
        elif isinstance(t, Cat):
            for i in t.items:
                go(i, mode)
        elif isinstance(t, Fill):
            for i in t.items:
                go(i, mode)
        elif isinstance(t, Nest):
            go(t.child, mode)
        elif isinstance(t, Ann):
            out.append(('ann+', t.label))
            go(t.child, mode)
            out.append(('ann-', t.label))
        elif isinstance(t, AB):
            go(t.child, 'break')
        elif isinstance(t, Grp):
            if mode == 'flat':
                go(t.child, 'flat')
            elif contains_forced_break(t.child):
                go(t.child, 'break')
            else:
                go(t.child, choose(t))
        elif isinstance(t, FC):
            go(t.flat if mode == 'flat' else t.broken, mode)
        else:
            out.append(Opaque('unknown term %r' % (t,)))
    go(t, mode)
    return out


def all_layouts(t, top_mode='break', cap=256):
    """every assignment of flat/break to the free groups of t -> list of atom sequences"""
    gs = [g for g in groups(t) if not contains_forced_break(g.child)]
    ids = {}
    for g in gs:
        ids.setdefault(id(g), g)
    gl = list(ids.values())
    if len(gl) > 8:
        gl = gl[:8]
    res = []
    seen = set()
    for bits in range(1 << len(gl)):
        assign = {id(g): ('flat' if (bits >> i) & 1 else 'break') for i, g in enumerate(gl)}
        seq = linearise(t, top_mode, lambda g: assign.get(id(g), 'break'))
        k = tuple(_ak(a) for a in seq)
        if k not in seen:
            seen.add(k)
            res.append(seq)
        if len(res) >= cap:
            break
    return res


def _ak(a):
    return a.key() if isinstance(a, T) else a


def is_space(a):
    return isinstance(a, Text) and a.s.strip() == ''


def content_atoms(seq, drop_comments=True, drop_ann=True):
    """content of a linearisation: drops line breaks, whitespace-only text, comment docs and
    annotation markers"""
    out = []
    for a in seq:
        if a is HL or is_space(a):
            continue
        if isinstance(a, tuple):
            if drop_ann:
                continue
        if drop_comments and isinstance(a, Cmt):
            continue
        out.append(a)
    return out


def content_key(seq):
    return tuple(_ak(a) for a in content_atoms(seq))


def follow_of_comments(seq):
    """for each Cmt atom in a linearisation: the next visible atom (skipping annotation
    markers); None at the end of the document"""
    res = []
    for i, a in enumerate(seq):
        if isinstance(a, Cmt):
            nxt = None
            for b in seq[i + 1:]:
                if isinstance(b, tuple):
                    continue
                nxt = b
                break
            res.append((a, nxt))
    return res


def strip_ann(t):
    while isinstance(t, Ann) and not t.is_comment:
        t = t.child
    return t


def text_of(t):
    """constant text of a term made only of Text / Ann(Text), else None"""
    if isinstance(t, Text):
        return t.s
    if isinstance(t, Ann) and not t.is_comment:
        return text_of(t.child)
    if isinstance(t, Cat):
        parts = [text_of(i) for i in t.items]
        if all(p is not None for p in parts):
            return ''.join(parts)
    if t is NIL:
        return ''
    return None
