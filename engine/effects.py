"""E4/E5 -- call graph, print cone and the effect inventory (A5).

Shared objects are module-level bindings of mutable values.  A *write site* is a statement
or call that rebinds or mutates one of them; a *read/test site* is a membership test, keyed
read or truthiness test.  Everything is resolved through the loader (imports followed).
"""
import ast

from .astutil import src, dotted, call_name, names_in, assigned_names

MUTATORS = {
    'append', 'extend', 'insert', 'pop', 'popitem', 'remove', 'clear', 'update', 'setdefault',
    'add', 'discard', 'sort', 'reverse', 'register', 'update_palette', '__setitem__', '__delitem__',
    'appendleft', 'move_to_end',
}
MUTABLE_CTORS = {
    'dict', 'list', 'set', 'WeakKeyDictionary', 'WeakValueDictionary', 'OrderedDict', 'defaultdict',
    'deque', 'Counter', 'singledispatch', 'bytearray', 'WeakSet', 'ChainMap',
}


class Shared:
    __slots__ = ('module', 'name', 'kind', 'lineno')

    def __init__(self, module, name, kind, lineno):
        self.module = module
        self.name = name
        self.kind = kind
        self.lineno = lineno

    @property
    def key(self):
        return '%s:%s' % (self.module.name, self.name)

    def __repr__(self):
        return '<shared %s %s>' % (self.key, self.kind)


def shared_objects(repo):
    out = {}
    for mn, m in sorted(repo.modules.items()):
        for name, vals in m.assigns.items():
            v = vals[-1]
            kind = None
            if isinstance(v, (ast.Dict, ast.List, ast.Set, ast.DictComp, ast.ListComp, ast.SetComp)):
                kind = type(v).__name__.lower()
            elif isinstance(v, ast.Call):
                cn = call_name(v).split('.')[-1]
                if cn in MUTABLE_CTORS:
                    kind = cn
            if kind:
                out[(mn, name)] = Shared(m, name, kind, v.lineno)
    return out


def _local_names(fn):
    """names that are local to the function (params + assigned, minus global/nonlocal)"""
    node = fn.node
    a = node.args
    loc = {x.arg for x in a.posonlyargs + a.args + a.kwonlyargs}
    if a.vararg:
        loc.add(a.vararg.arg)
    if a.kwarg:
        loc.add(a.kwarg.arg)
    glob = set()
    for s in ast.walk(node):
        if isinstance(s, (ast.Global,)):
            glob.update(s.names)
    for st in node.body:
        loc |= assigned_names(st)
    for s in ast.walk(node):
        if isinstance(s, (ast.comprehension,)):
            loc |= names_in(s.target)
    # enclosing function locals shadow module names too
    p = fn.parent
    while p is not None:
        loc |= _local_names(p)[0]
        p = p.parent
    return loc - glob, glob


class Site:
    __slots__ = ('fn', 'obj', 'kind', 'node', 'detail')

    def __init__(self, fn, obj, kind, node, detail):
        self.fn = fn            # FunctionInfo or None for module level
        self.obj = obj          # Shared
        self.kind = kind        # 'write' | 'read'
        self.node = node
        self.detail = detail    # 'pop', 'setitem', 'rebind', 'in', 'getitem', 'get', 'truth', 'iter', ...

    @property
    def where(self):
        m = self.fn.module if self.fn else self.obj.module
        return '%s:%d' % (m.relpath, self.node.lineno)

    def __repr__(self):
        return '<%s %s %s @%s>' % (self.kind, self.obj.key, self.detail, self.where)


def _resolve_shared(repo, module, name, shared):
    """module-level name -> Shared it denotes (following imports)"""
    if (module.name, name) in shared:
        return shared[(module.name, name)]
    if name in module.imports:
        mod, attr = module.imports[name]
        if attr is not None and (mod, attr) in shared:
            return shared[(mod, attr)]
    return None


def sites(repo, shared=None):
    shared = shared or shared_objects(repo)
    out = []
    for f in repo.all_functions():
        loc, glob = _local_names(f)
        m = f.module

        # local names bound to a module-level object itself (``stack = _SHARED_STACK``): a write through the alias is a write to it
        alias = {}
        for a_ in _own_nodes(f.node):
            if isinstance(a_, ast.Assign) and len(a_.targets) == 1 and isinstance(a_.targets[0], ast.Name):
                vals_ = [a_.value.body, a_.value.orelse] if isinstance(a_.value, ast.IfExp) else [a_.value]
                for v_ in vals_:
                    if isinstance(v_, ast.Name) and (v_.id not in loc or v_.id in glob):
                        s_ = _resolve_shared(repo, m, v_.id, shared)
                        if s_ is not None:
                            alias[a_.targets[0].id] = s_

        def obj_of(expr):
            d = dotted(expr)
            if d is None:
                return None, None
            head = d.split('.')[0]
            if head in loc and head not in glob and head in alias:
                return alias[head], d[len(head) + 1:]
            if head in loc and head not in glob:
                return None, None
            s = _resolve_shared(repo, m, head, shared)
            return s, d[len(head) + 1:]

        own_body = list(_own_nodes(f.node))
        for n in own_body:
            if isinstance(n, (ast.Assign, ast.AugAssign, ast.AnnAssign)):
                tgts = n.targets if isinstance(n, ast.Assign) else [n.target]
                for t in tgts:
                    for tt in (t.elts if isinstance(t, (ast.Tuple, ast.List)) else [t]):
                        if isinstance(tt, ast.Name) and tt.id in glob:
                            s = _resolve_shared(repo, m, tt.id, shared)
                            if s is None and (m.name, tt.id) not in shared and tt.id in m.assigns:
                                s = Shared(m, tt.id, 'rebindable', n.lineno)
                            if s:
                                out.append(Site(f, s, 'write', n, 'rebind'))
                        elif isinstance(tt, ast.Subscript):
                            s, rest = obj_of(tt.value)
                            if s is not None and not rest:
                                out.append(Site(f, s, 'write', n, 'setitem'))
                        elif isinstance(tt, ast.Attribute):
                            s, rest = obj_of(tt.value)
                            if s is not None and not rest:
                                out.append(Site(f, s, 'write', n, 'setattr'))
            elif isinstance(n, ast.Delete):
                for t in n.targets:
                    if isinstance(t, ast.Subscript):
                        s, rest = obj_of(t.value)
                        if s is not None and not rest:
                            out.append(Site(f, s, 'write', n, 'delitem'))
            elif isinstance(n, ast.Call) and isinstance(n.func, ast.Attribute):
                s, rest = obj_of(n.func.value)
                if s is not None and not rest:
                    if n.func.attr in MUTATORS:
                        out.append(Site(f, s, 'write', n, n.func.attr))
                    elif n.func.attr in ('get', 'keys', 'values', 'items', 'copy', 'dispatch', 'index', 'count'):
                        out.append(Site(f, s, 'read', n, n.func.attr))
                elif s is not None and rest == 'registry':
                    out.append(Site(f, s, 'read', n, 'registry.' + n.func.attr))
            elif isinstance(n, ast.Compare) and len(n.ops) == 1 and isinstance(n.ops[0], (ast.In, ast.NotIn)):
                s, rest = obj_of(n.comparators[0])
                if s is not None:
                    out.append(Site(f, s, 'read', n, 'in' + ('.' + rest if rest else '')))
            elif isinstance(n, ast.Subscript) and isinstance(n.ctx, ast.Load):
                s, rest = obj_of(n.value)
                if s is not None and not rest:
                    out.append(Site(f, s, 'read', n, 'getitem'))
            elif isinstance(n, (ast.For, ast.comprehension)):
                s, rest = obj_of(n.iter)
                if s is not None and not rest:
                    out.append(Site(f, s, 'read', n if isinstance(n, ast.For) else n.iter, 'iter'))
    return out


def _own_nodes(fn_node):
    """nodes of a function excluding nested function/class bodies"""
    stack = [s for s in fn_node.body
             if not isinstance(s, (ast.FunctionDef, ast.AsyncFunctionDef, ast.ClassDef))]
    while stack:
        n = stack.pop()
        yield n
        for c in ast.iter_child_nodes(n):
            if isinstance(c, (ast.FunctionDef, ast.AsyncFunctionDef, ast.ClassDef, ast.Lambda)):
                continue
            stack.append(c)


# ---------------------------------------------------------------------------------------
def call_graph(repo):
    """FunctionInfo.key -> set of callee keys (package functions only).  Resolves direct
    names, imported names, ``self.m`` / ``ctx.m`` methods of package classes by class-local
    lookup, nested function references (closures passed as values count as calls), and
    ``partial(f, ...)`` / bare function references passed as arguments."""
    fns = {f.key: f for f in repo.all_functions()}
    methods = {}
    for m in repo.modules.values():
        for c in m.classes.values():
            for name, meth in c.methods.items():
                methods.setdefault(name, []).append(meth)
    graph = {k: set() for k in fns}
    for f in fns.values():
        m = f.module
        for n in _own_nodes(f.node):
            if isinstance(n, ast.Name) and isinstance(n.ctx, ast.Load):
                # nested function of f or of an enclosing function?
                p = f
                hit = None
                while p is not None and hit is None:
                    q = p.qualname + '.<locals>.' + n.id
                    if q in m.funcs:
                        hit = m.funcs[q]
                    p = p.parent
                if hit is None:
                    r = repo.resolve(m, n.id)
                    if r and r[0] == 'func':
                        hit = r[1]
                    elif r and r[0] == 'class':
                        init = r[1].methods.get('__init__')
                        if init:
                            hit = init
                if hit is not None:
                    graph[f.key].add(hit.key)
            elif isinstance(n, ast.Attribute) and isinstance(n.ctx, ast.Load):
                # method of a package class (by name, class-insensitive but package-local)
                if isinstance(n.value, ast.Name) and n.value.id in ('self', 'ctx', 'nested_ctx') or \
                        isinstance(n.value, ast.Call):
                    for meth in methods.get(n.attr, []):
                        graph[f.key].add(meth.key)
                elif n.attr in ('normalize', 'when_flat', 'when_broken', 'fn'):
                    for meth in methods.get(n.attr, []):
                        graph[f.key].add(meth.key)
    return graph, fns


def reachable(graph, roots):
    seen = set()
    work = list(roots)
    while work:
        k = work.pop()
        if k in seen or k not in graph:
            continue
        seen.add(k)
        work.extend(graph[k])
    return seen


def print_cone(repo):
    """keys of functions reachable from the printing pipeline: python_to_sdocs, every
    registered printer (core + stdlib, not extras' install-time code), layout and the plain
    renderer."""
    from .loader import static_registry
    graph, fns = call_graph(repo)
    roots = []
    for k, f in fns.items():
        if f.module.name.endswith('.prettyprinter') and f.name in ('python_to_sdocs', 'pretty_python_value'):
            roots.append(k)
        if f.module.name.endswith('.layout') or f.module.name.endswith('.render'):
            roots.append(k)
        if f.module.name.endswith('.doctypes'):
            roots.append(k)
    for r in static_registry(repo):
        if r.fn is not None and '.extras' not in r.module.name:
            roots.append(r.fn.key)
    # functions handed to partial(...) at module level (the wrapper and the base printer)
    for m in repo.modules.values():
        if '.extras' in m.name:
            continue
        for vals in m.assigns.values():
            for v in vals:
                if isinstance(v, ast.Call) and call_name(v) == 'partial':
                    for a in v.args:
                        if isinstance(a, ast.Name):
                            r = repo.resolve(m, a.id)
                            if r and r[0] == 'func':
                                roots.append(r[1].key)
    # the entry points themselves
    for k, f in fns.items():
        if f.module.name == 'prettyprinter' and f.name in ('pformat', 'pprint'):
            roots.append(k)
    return reachable(graph, roots), graph, fns
