"""AST helpers: normalised text, call names, guard facts (A2), early-exit reasoning.

Guard facts are computed syntax-directed.  Python has no goto, so for the statement kinds
the package uses the set of tests that dominate a statement is exactly: the tests of the
enclosing ``if``/``while``/``IfExp``/``BoolOp``/comprehension conditions (with polarity)
plus the negations of earlier sibling ``if`` statements whose taken branch always leaves
the block (early return / raise / continue / break), plus ``assert`` tests -- minus every
fact that mentions a name re-assigned in between.
"""
import ast


def src(node):
    """Normalised source text of a node (formatting, parentheses, quotes canonical)."""
    if node is None:
        return 'None'
    return ast.unparse(node)


def dotted(node):
    """``a.b.c`` -> 'a.b.c' for Name/Attribute chains, else None."""
    parts = []
    while isinstance(node, ast.Attribute):
        parts.append(node.attr)
        node = node.value
    if isinstance(node, ast.Name):
        parts.append(node.id)
        return '.'.join(reversed(parts))
    return None


# modules whose members the package uses both as ``from m import x`` and as ``import m; m.x``: the callee is the same function
STDLIB_FROM_MODULES = ('itertools.', 'io.', 'traceback.', 'functools.', 'copy.', 'collections.', 'weakref.', 'importlib.', 'operator.', 'shutil.', 'types.')


def strip_stdlib_prefix(name):
    for p_ in STDLIB_FROM_MODULES:
        if name.startswith(p_) and '.' not in name[len(p_):]:
            return name[len(p_):]
    return name


def call_name(call):
    """Dotted name of the callee of an ast.Call; for method chains on call results
    (``ctx.nested_call().use_multiline_strategy``) returns '<call>.use_multiline_strategy'."""
    f = call.func
    d = dotted(f)
    if d is not None:
        return strip_stdlib_prefix(d)
    if isinstance(f, ast.Attribute):
        return '<expr>.' + f.attr
    return '<expr>'


def calls_in(node):
    for n in ast.walk(node):
        if isinstance(n, ast.Call):
            yield n


def names_in(node, ctx=None):
    out = set()
    for n in ast.walk(node):
        if isinstance(n, ast.Name) and (ctx is None or isinstance(n.ctx, ctx)):
            out.add(n.id)
    return out


def assigned_names(node):
    """Names (re)bound anywhere inside ``node`` (assignment, for target, with-as, except-as,
    augmented assignment, walrus, nested def/class names); does not descend into nested
    function bodies for their *locals* but does report nonlocal/global rebinding."""
    out = set()

    def visit(n, top=True):
        if isinstance(n, (ast.FunctionDef, ast.AsyncFunctionDef, ast.ClassDef)):
            out.add(n.name)
            if isinstance(n, ast.ClassDef):
                return
            declared = set()
            for s in ast.walk(n):
                if isinstance(s, (ast.Nonlocal, ast.Global)):
                    declared.update(s.names)
            if declared:
                for s in ast.walk(n):
                    if isinstance(s, ast.Name) and isinstance(s.ctx, ast.Store) and s.id in declared:
                        out.add(s.id)
            return
        if isinstance(n, ast.Lambda):
            return
        if isinstance(n, ast.Name) and isinstance(n.ctx, (ast.Store, ast.Del)):
            out.add(n.id)
        if isinstance(n, ast.ExceptHandler) and n.name:
            out.add(n.name)
        if isinstance(n, (ast.ListComp, ast.SetComp, ast.DictComp, ast.GeneratorExp)):
            return  # comprehension targets are local to the comprehension
        for c in ast.iter_child_nodes(n):
            visit(c, False)
    visit(node)
    return out


def always_exits(body):
    """True if control never falls out of the end of this statement list."""
    if not body:
        return False
    last = body[-1]
    if isinstance(last, (ast.Return, ast.Raise, ast.Continue, ast.Break)):
        return True
    if isinstance(last, ast.If):
        return always_exits(last.body) and always_exits(last.orelse)
    if isinstance(last, ast.With):
        return always_exits(last.body)
    if isinstance(last, ast.Try):
        if last.finalbody and always_exits(last.finalbody):
            return True
        body_ok = always_exits(last.body + last.orelse) if last.orelse else always_exits(last.body)
        return body_ok and all(always_exits(h.body) for h in last.handlers)
    return False


class Fact:
    __slots__ = ('test', 'pol', 'text', 'names')

    def __init__(self, test, pol):
        self.test = test
        self.pol = pol
        self.text = src(test)
        self.names = names_in(test)

    def __repr__(self):
        return ('' if self.pol else 'not ') + '(' + self.text + ')'

    def key(self):
        return (self.text, self.pol)


def atomise(test, pol=True):
    """Split a test into atomic facts that certainly hold when ``test`` has truth ``pol``."""
    if isinstance(test, ast.UnaryOp) and isinstance(test.op, ast.Not):
        return atomise(test.operand, not pol)
    if isinstance(test, ast.BoolOp):
        if isinstance(test.op, ast.And) and pol:
            out = []
            for v in test.values:
                out.extend(atomise(v, True))
            return out
        if isinstance(test.op, ast.Or) and not pol:
            out = []
            for v in test.values:
                out.extend(atomise(v, False))
            return out
    return [Fact(test, pol)]


class Guards:
    """Guard facts for every node of one function (or module) body."""

    def __init__(self, fn_node, descend_nested=False):
        self.fn = fn_node
        self.map = {}
        self.parent = {}
        self.descend_nested = descend_nested
        body = fn_node.body if hasattr(fn_node, 'body') else [fn_node]
        self._block(body, ())

    # -- public -----------------------------------------------------------------
    def of(self, node):
        return self.map.get(id(node), ())

    def holds(self, node, pred):
        """some dominating fact satisfies pred(test_node, polarity)"""
        return any(pred(f.test, f.pol) for f in self.of(node))

    def texts(self, node):
        return [repr(f) for f in self.of(node)]

    # -- construction -------------------------------------------------------------
    @staticmethod
    def _kill(facts, names):
        if not names:
            return facts
        return tuple(f for f in facts if not (f.names & names))

    def _block(self, body, facts):
        """process a statement list; returns facts holding after it (if it falls through)"""
        for st in body:
            facts = self._stmt(st, facts)
        return facts

    def _expr(self, node, facts):
        """annotate expression nodes, following short-circuit and conditional structure"""
        if node is None:
            return
        self.map[id(node)] = facts
        if isinstance(node, ast.IfExp):
            self._expr(node.test, facts)
            self._expr(node.body, facts + tuple(atomise(node.test, True)))
            self._expr(node.orelse, facts + tuple(atomise(node.test, False)))
        elif isinstance(node, ast.BoolOp):
            cur = facts
            for v in node.values:
                self._expr(v, cur)
                cur = cur + tuple(atomise(v, isinstance(node.op, ast.And)))
        elif isinstance(node, (ast.ListComp, ast.SetComp, ast.GeneratorExp, ast.DictComp)):
            cur = facts
            for gen in node.generators:
                self._expr(gen.iter, cur)
                self._expr(gen.target, cur)
                cur = self._kill(cur, names_in(gen.target))
                for cond in gen.ifs:
                    self._expr(cond, cur)
                    cur = cur + tuple(atomise(cond, True))
            if isinstance(node, ast.DictComp):
                self._expr(node.key, cur)
                self._expr(node.value, cur)
            else:
                self._expr(node.elt, cur)
        elif isinstance(node, ast.Lambda):
            self._expr(node.body, self._kill(facts, {a.arg for a in node.args.args}))
        else:
            for c in ast.iter_child_nodes(node):
                if isinstance(c, ast.expr):
                    self._expr(c, facts)
                elif isinstance(c, (ast.keyword, ast.comprehension, ast.FormattedValue)):
                    self.map[id(c)] = facts
                    for cc in ast.iter_child_nodes(c):
                        if isinstance(cc, ast.expr):
                            self._expr(cc, facts)

    def _stmt(self, st, facts):
        self.map[id(st)] = facts
        if isinstance(st, ast.If):
            self._expr(st.test, facts)
            t = facts + tuple(atomise(st.test, True))
            f = facts + tuple(atomise(st.test, False))
            out_t = self._block(st.body, t)
            out_f = self._block(st.orelse, f)
            killed = assigned_names(st)
            base = self._kill(facts, killed)
            ex_t = always_exits(st.body)
            ex_f = always_exits(st.orelse) if st.orelse else False
            if ex_t and not ex_f:
                # falls through only via the false branch
                extra = tuple(atomise(st.test, False))
                after = self._kill(base + extra, assigned_names_list(st.orelse) | names_walrus(st.test))
                # facts established inside the else body that survive
                return _merge_unique(after, self._kill(out_f, set()))
            if ex_f and not ex_t:
                extra = tuple(atomise(st.test, True))
                after = self._kill(base + extra, assigned_names_list(st.body) | names_walrus(st.test))
                return _merge_unique(after, out_t)
            # both fall through (or both exit): keep facts common to both outcomes
            common = [x for x in out_t if any(x.key() == y.key() for y in out_f)]
            return _merge_unique(base, tuple(c for c in common if not (c.names & killed)) )
        if isinstance(st, (ast.For, ast.AsyncFor)):
            self._expr(st.iter, facts)
            killed = assigned_names(st)
            inner = self._kill(facts, killed)
            self._expr(st.target, inner)
            self._block(st.body, inner)
            self._block(st.orelse, inner)
            return inner
        if isinstance(st, ast.While):
            killed = assigned_names(st)
            inner = self._kill(facts, killed)
            self._expr(st.test, inner)
            self._block(st.body, inner + tuple(atomise(st.test, True)))
            self._block(st.orelse, inner)
            has_break = any(isinstance(n, ast.Break) for n in _walk_same_loop(st.body))
            if not has_break and not (isinstance(st.test, ast.Constant) and st.test.value):
                return self._kill(inner + tuple(atomise(st.test, False)), killed)
            return inner
        if isinstance(st, ast.Try):
            killed = assigned_names_list(st.body)
            out_body = self._block(st.body, facts)
            hfacts = self._kill(facts, killed)
            outs = []
            for h in st.handlers:
                self.map[id(h)] = hfacts
                if h.type is not None:
                    self._expr(h.type, hfacts)
                o = self._block(h.body, hfacts)
                if not always_exits(h.body):
                    outs.append(o)
            out_else = self._block(st.orelse, out_body)
            if not always_exits(st.body + st.orelse):
                outs.append(out_else)
            allkilled = assigned_names(st)
            base = self._kill(facts, allkilled)
            if outs:
                common = [x for x in outs[0]
                          if all(any(x.key() == y.key() for y in o) for o in outs[1:])]
                base = _merge_unique(base, tuple(c for c in common if not (c.names & allkilled)))
            self._block(st.finalbody, base)
            return base
        if isinstance(st, (ast.With, ast.AsyncWith)):
            for it in st.items:
                self._expr(it.context_expr, facts)
                if it.optional_vars is not None:
                    self._expr(it.optional_vars, facts)
            inner = self._kill(facts, {n for it in st.items if it.optional_vars is not None
                                      for n in names_in(it.optional_vars)})
            return self._block(st.body, inner)
        if isinstance(st, ast.Assert):
            self._expr(st.test, facts)
            return facts + tuple(atomise(st.test, True))
        if isinstance(st, (ast.FunctionDef, ast.AsyncFunctionDef)):
            if self.descend_nested:
                inner = self._kill(facts, set(a.arg for a in st.args.args) | assigned_names_list(st.body))
                self._block(st.body, inner)
            return self._kill(facts, {st.name})
        if isinstance(st, ast.ClassDef):
            return self._kill(facts, {st.name})
        # simple statement
        for c in ast.iter_child_nodes(st):
            if isinstance(c, ast.expr):
                self._expr(c, facts)
        return self._kill(facts, assigned_names(st))


def names_walrus(node):
    return {n.target.id for n in ast.walk(node)
            if isinstance(n, ast.NamedExpr) and isinstance(n.target, ast.Name)}


def assigned_names_list(body):
    out = set()
    for st in body:
        out |= assigned_names(st)
    return out


def _merge_unique(a, b):
    seen = {f.key() for f in a}
    out = list(a)
    for f in b:
        if f.key() not in seen:
            seen.add(f.key())
            out.append(f)
    return tuple(out)


def _walk_same_loop(body):
    """nodes of a loop body excluding nested loops (whose break belongs to them) and defs"""
    stack = list(body)
    while stack:
        n = stack.pop()
        yield n
        if isinstance(n, (ast.For, ast.While, ast.FunctionDef, ast.AsyncFunctionDef, ast.Lambda)):
            # orelse of a nested loop still belongs to the outer loop for break purposes
            if isinstance(n, (ast.For, ast.While)):
                stack.extend(n.orelse)
            continue
        stack.extend(ast.iter_child_nodes(n))


# ---------------------------------------------------------------------------------------
# comparisons in canonical orientation

_FLIP = {ast.Lt: ast.Gt, ast.Gt: ast.Lt, ast.LtE: ast.GtE, ast.GtE: ast.LtE,
         ast.Eq: ast.Eq, ast.NotEq: ast.NotEq, ast.Is: ast.Is, ast.IsNot: ast.IsNot}
_NEG = {ast.Lt: ast.GtE, ast.Gt: ast.LtE, ast.LtE: ast.Gt, ast.GtE: ast.Lt,
        ast.Eq: ast.NotEq, ast.NotEq: ast.Eq, ast.Is: ast.IsNot, ast.IsNot: ast.Is,
        ast.In: ast.NotIn, ast.NotIn: ast.In}
_SYM = {ast.Lt: '<', ast.Gt: '>', ast.LtE: '<=', ast.GtE: '>=', ast.Eq: '==', ast.NotEq: '!=',
        ast.Is: 'is', ast.IsNot: 'is not', ast.In: 'in', ast.NotIn: 'not in'}


def compare_parts(test, pol=True):
    """A simple two-operand comparison as (left_node, opsym, right_node) with the polarity
    folded into the operator; None for anything else."""
    while isinstance(test, ast.UnaryOp) and isinstance(test.op, ast.Not):
        test = test.operand
        pol = not pol
    if isinstance(test, ast.Compare) and len(test.ops) == 1:
        op = type(test.ops[0])
        if not pol:
            op = _NEG.get(op)
            if op is None:
                return None
        return test.left, _SYM[op], test.comparators[0]
    return None


def flip(opsym):
    return {'<': '>', '>': '<', '<=': '>=', '>=': '<=', '==': '==', '!=': '!=',
            'is': 'is', 'is not': 'is not'}.get(opsym)


def is_const(node, value):
    return isinstance(node, ast.Constant) and node.value == value and type(node.value) is type(value)


def is_none(node):
    return isinstance(node, ast.Constant) and node.value is None


def enclosing_map(fn_node):
    """child id -> parent node, for the whole function"""
    par = {}
    for n in ast.walk(fn_node):
        for c in ast.iter_child_nodes(n):
            par[id(c)] = n
    return par


def stmt_of(node, parents):
    while node is not None and not isinstance(node, ast.stmt):
        node = parents.get(id(node))
    return node


def enclosing_chain(node, parents):
    out = []
    node = parents.get(id(node))
    while node is not None:
        out.append(node)
        node = parents.get(id(node))
    return out


def inside_try_body(node, parents):
    """List of ast.Try nodes in whose *body* (not handlers/else/finally) node lies,
    innermost first."""
    out = []
    child = node
    p = parents.get(id(child))
    while p is not None:
        if isinstance(p, ast.Try) and any(child is s for s in p.body):
            out.append(p)
        child = p
        p = parents.get(id(child))
    return out


_EXC_HIER = {
    'BaseException': None, 'Exception': 'BaseException',
    'TypeError': 'Exception', 'ValueError': 'Exception', 'KeyError': 'LookupError',
    'IndexError': 'LookupError', 'LookupError': 'Exception', 'AttributeError': 'Exception',
    'StopIteration': 'Exception', 'RuntimeError': 'Exception', 'ArithmeticError': 'Exception',
    'ZeroDivisionError': 'ArithmeticError', 'OverflowError': 'ArithmeticError',
    'AssertionError': 'Exception', 'ImportError': 'Exception', 'OSError': 'Exception',
    'UnicodeError': 'ValueError', 'UnicodeEncodeError': 'UnicodeError',
    'NotImplementedError': 'RuntimeError', 'RecursionError': 'RuntimeError',
    'KeyboardInterrupt': 'BaseException', 'SystemExit': 'BaseException',
    'GeneratorExit': 'BaseException', 'Warning': 'Exception', 'UserWarning': 'Warning',
}


def exc_is_subclass(name, of):
    while name is not None:
        if name == of:
            return True
        name = _EXC_HIER.get(name)
    return False


def handler_catches(handler, excname='Exception'):
    """does this except clause catch every instance of builtin exception ``excname``?"""
    if handler.type is None:
        return True
    types = handler.type.elts if isinstance(handler.type, ast.Tuple) else [handler.type]
    for t in types:
        d = dotted(t)
        if d is None:
            continue
        d = d.split('.')[-1]
        if d in _EXC_HIER and exc_is_subclass(excname, d):
            return True
    return False


def bind_args(call, fninfo):
    """parameter name -> argument expression for a call of a package function (positional and keyword)"""
    out = {}
    params = fninfo.params
    if fninfo.cls is not None and params and params[0] == 'self':
        params = params[1:]
    for i, a in enumerate(call.args):
        if isinstance(a, ast.Starred):
            break
        if i < len(params):
            out[params[i]] = a
    for k in call.keywords:
        if k.arg:
            out[k.arg] = k.value
    return out


class _IfExpAssign(ast.NodeTransformer):
    """``x = A if c else B``  ->  ``if c: x = A  else: x = B``  (same for ``return`` and augmented assignment)"""

    def _split(self, node, value_field='value'):
        v = getattr(node, value_field)
        if not isinstance(v, ast.IfExp):
            return node
        import copy
        a, b = copy.copy(node), copy.copy(node)
        setattr(a, value_field, v.body)
        setattr(b, value_field, v.orelse)
        new = ast.If(test=v.test, body=[self.visit(a)], orelse=[self.visit(b)])
        ast.copy_location(new, node)
        for x in ast.walk(new):
            if not hasattr(x, 'lineno'):
                x.lineno = node.lineno
                x.col_offset = node.col_offset
        return new

    def visit_Assign(self, node):
        return self._split(node)

    def visit_Return(self, node):
        if node.value is None:
            return node
        return self._split(node)

    def visit_FunctionDef(self, node):
        node.body = [self.visit(s) for s in node.body]
        return node


def expand_ifexp(fn_node):
    """deep copy of a function in which conditional-expression assignments/returns are if statements"""
    import copy
    t = copy.deepcopy(fn_node)

    def walk_block(body):
        out = []
        for st in body:
            for fld in ('body', 'orelse', 'finalbody'):
                blk = getattr(st, fld, None)
                if isinstance(blk, list) and blk and isinstance(blk[0], ast.stmt):
                    setattr(st, fld, walk_block(blk))
            for h in getattr(st, 'handlers', []) or []:
                h.body = walk_block(h.body)
            if isinstance(st, (ast.Assign, ast.Return)) and not isinstance(st, ast.FunctionDef):
                st = _IfExpAssign()._split(st) if getattr(st, 'value', None) is not None else st
            out.append(st)
        return out
    t.body = walk_block(t.body)
    return t
