"""A1 -- type-switch facts for the stack machines in layout.py.

A *stack machine* is a ``while`` loop whose body pops a triple ``(indent, mode, doc)`` from
a list and dispatches on the popped document with ``x is SINGLETON`` / ``isinstance(x, K)``
tests.  For every branch the extractor enumerates the paths through the branch body and
records, per path, the ordered events: pushes (with canonical indent / mode / child
expressions, temporaries inlined), yields, budget / column updates, returns, continues,
raises and predicate calls.  Rules compare these records, never statements.
"""
import ast
import copy

from .astutil import src, dotted, call_name
from .loader import AnalysisError


class Branch:
    def __init__(self, kinds, test, body, lineno, how):
        self.kinds = kinds      # tuple of kind names: 'str', 'NIL', 'Concat', ...
        self.test = test
        self.body = body
        self.lineno = lineno
        self.how = how          # 'is' | 'isinstance'
        self.paths = []         # list of Path
        self.opaque = False

    def __repr__(self):
        return '<branch %s @%d>' % ('/'.join(self.kinds), self.lineno)


class Path:
    def __init__(self, conds, events, end):
        self.conds = conds      # tuple of (test_src, polarity)
        self.events = events    # list of event tuples
        self.end = end          # 'fall' | 'continue' | 'return' | 'raise' | 'break'

    def pushes(self):
        return [e for e in self.events if e[0] == 'push']

    def cond_text(self):
        return ' and '.join(('' if p else 'not ') + t for t, p in self.conds) or 'always'


class ShapeUnrecognised(AnalysisError):
    """the function is not (any more) a dispatch loop of the recognised form: the structural rules do not apply to it (the
    interpreted layout model decides its behaviour)"""


def _terminates(stmts):
    """every path through the statement list leaves the loop iteration (continue / return / raise / break)"""
    if not stmts:
        return False
    last = stmts[-1]
    if isinstance(last, (ast.Continue, ast.Return, ast.Raise, ast.Break)):
        return True
    if isinstance(last, ast.If):
        return _terminates(last.body) and _terminates(last.orelse)
    return False


class NullMachine:
    """stand-in for a machine whose shape was not recognised: no branches, no structural facts"""
    exact = False

    def __init__(self, fn, reason):
        self.fn = fn
        self.reason = reason
        self.loop = fn.node
        self.stack = 'triplestack'
        self.indent_var, self.mode_var, self.doc_var = 'indent', 'mode', 'doc'
        self.branches = []
        self.default = None
        self.pre_events = []

    def branch(self, kind):
        return None

    def kinds(self):
        return []


class StackMachine:
    exact = True
    reason = ''

    def __init__(self, fn, loop, stack, vars3, branches, default, pre_events):
        self.fn = fn
        self.loop = loop
        self.stack = stack          # name of the list variable
        self.indent_var, self.mode_var, self.doc_var = vars3
        self.branches = branches
        self.default = default      # body (stmts) of the final else, or None
        self.pre_events = pre_events

    def branch(self, kind):
        for b in self.branches:
            if kind in b.kinds:
                return b
        return None

    def kinds(self):
        out = []
        for b in self.branches:
            out.extend(b.kinds)
        return out


class _Subst(ast.NodeTransformer):
    def __init__(self, env):
        self.env = env

    def visit_Name(self, node):
        if isinstance(node.ctx, ast.Load) and node.id in self.env:
            return copy.deepcopy(self.env[node.id])
        return node


def inline(expr, env, deep=False):
    """substitute temporaries into expr.  Environments built by ``enumerate_paths`` hold
    values that were already inlined when they were assigned, so one pass is exact (a second
    pass would wrongly re-substitute ``x`` in ``x = f(x)``).  ``deep=True`` is for raw
    single-assignment environments and iterates to a fixpoint."""
    if expr is None:
        return None
    cur = _Subst(env).visit(copy.deepcopy(expr))
    if not deep:
        return cur
    for _ in range(8):
        new = _Subst(env).visit(copy.deepcopy(cur))
        if src(new) == src(cur):
            break
        cur = new
    return cur


def _pop_assign(st, ):
    """``a, b, c = S.pop()`` -> (S, (a, b, c))"""
    if isinstance(st, ast.Assign) and len(st.targets) == 1 \
            and isinstance(st.targets[0], ast.Tuple) \
            and isinstance(st.value, ast.Call) \
            and isinstance(st.value.func, ast.Attribute) and st.value.func.attr == 'pop' \
            and not st.value.args and isinstance(st.value.func.value, ast.Name):
        names = [e.id for e in st.targets[0].elts if isinstance(e, ast.Name)]
        if len(names) == 3 == len(st.targets[0].elts):
            return st.value.func.value.id, tuple(names)
    return None


def find_machine(fninfo, singletons=('NIL', 'HARDLINE')):
    fn = fninfo.node
    loop = None
    for n in ast.walk(fn):
        if isinstance(n, ast.While):
            for st in n.body:
                pa = _pop_assign(st)
                if pa:
                    loop = (n, st, pa)
                    break
                # the pop may sit after a guard such as ``if not stack: return True``
            if loop:
                break
    if loop is None:
        raise ShapeUnrecognised('%s: no stack-pop loop found' % fninfo.key)
    wl, popst, (stack, vars3) = loop
    docv = vars3[2]
    idx = wl.body.index(popst)
    rest = wl.body[idx + 1:]
    branches = []
    default = None

    def kind_of(test):
        # returns (kinds tuple, how) or None
        if isinstance(test, ast.Compare) and len(test.ops) == 1 and isinstance(test.ops[0], ast.Is) \
                and isinstance(test.left, ast.Name) and test.left.id == docv:
            d = dotted(test.comparators[0])
            if d:
                return (d.split('.')[-1],), 'is'
        if isinstance(test, ast.Compare) and len(test.ops) == 1 and isinstance(test.ops[0], ast.Eq) \
                and isinstance(test.left, ast.Name) and test.left.id == docv:
            d = dotted(test.comparators[0])
            if d and d.split('.')[-1] in singletons:
                return (d.split('.')[-1],), 'is'
        if isinstance(test, ast.Call) and isinstance(test.func, ast.Name) \
                and test.func.id == 'isinstance' and len(test.args) == 2 \
                and isinstance(test.args[0], ast.Name) and test.args[0].id == docv:
            t = test.args[1]
            elts = t.elts if isinstance(t, ast.Tuple) else [t]
            ks = []
            for e in elts:
                d = dotted(e)
                if d is None:
                    return None
                ks.append(d.split('.')[-1])
            return tuple(ks), 'isinstance'
        if isinstance(test, ast.Compare) and len(test.ops) == 1 \
                and isinstance(test.ops[0], (ast.Is, ast.Eq)) \
                and isinstance(test.left, ast.Call) and isinstance(test.left.func, ast.Name) \
                and test.left.func.id == 'type' and len(test.left.args) == 1 \
                and isinstance(test.left.args[0], ast.Name) and test.left.args[0].id == docv:
            d = dotted(test.comparators[0])
            if d:
                return (d.split('.')[-1],), 'isinstance'
        return None

    def chain(ifnode):
        nonlocal default
        cur = ifnode
        while True:
            k = kind_of(cur.test)
            if k is None:
                raise ShapeUnrecognised('%s:%d: dispatch test %r is not a recognised kind test'
                                        % (fninfo.module.relpath, cur.lineno, src(cur.test)))
            branches.append(Branch(k[0], cur.test, cur.body, cur.lineno, k[1]))
            if len(cur.orelse) == 1 and isinstance(cur.orelse[0], ast.If) \
                    and kind_of(cur.orelse[0].test) is not None:
                cur = cur.orelse[0]
                continue
            if cur.orelse:
                default = cur.orelse
            return

    pre = []
    inexact = ''
    for i, st in enumerate(rest):
        if isinstance(st, ast.If) and kind_of(st.test) is not None:
            if default is not None:
                inexact = 'a kind test follows the default branch'
            chain(st)
        elif branches and default is None and all(_terminates(b.body) for b in branches) \
                and not any(isinstance(x, ast.If) and kind_of(x.test) is not None for x in rest[i:]):
            # guard-clause form: every kind branch leaves the iteration, what follows is the default branch
            default = rest[i:]
            break
        else:
            pre.append(st)
            inexact = 'line %d: a statement of the loop body is not part of the kind dispatch' % st.lineno
    if not branches:
        raise ShapeUnrecognised('%s: no dispatch branches found' % fninfo.key)
    m = StackMachine(fninfo, wl, stack, vars3, branches, default, pre)
    local = set(fninfo.module.funcs)
    for b in branches:
        b.paths = enumerate_paths(b.body, stack, {})
        # a branch whose effect on the stack is not visible here (pushed through a helper, or in a form that is not a plain triple)
        # ... or that does part of its work in a private helper of the module (the facts the rules look for may sit there)
        b.opaque = any(e[0] == 'push?' or (e[0] == 'call' and e[1] in local and e[1] not in ('fast_fitting_predicate', 'smart_fitting_predicate')
                                           and e[1].startswith('_'))
                       for p in b.paths for e in p.events)
    if inexact:
        m.exact = False
        m.reason = inexact
    return m


def enumerate_paths(stmts, stack, env, limit=256):
    """paths through a straight-line/if-structured statement list"""
    results = []

    def go(stmts, conds, events, env):
        if len(results) > limit:
            raise AnalysisError('too many paths in a dispatch branch')
        for i, st in enumerate(stmts):
            if isinstance(st, ast.If):
                test = st.test
                flip = False
                while isinstance(test, ast.UnaryOp) and isinstance(test.op, ast.Not):
                    test = test.operand
                    flip = not flip
                t = src(inline(test, env))
                for c in ast.walk(st.test):
                    if isinstance(c, ast.Call):
                        _call_event(c, env, events, st.lineno)
                rest = stmts[i + 1:]
                go(list(st.body) + rest, conds + ((t, not flip),), list(events), dict(env))
                go(list(st.orelse) + rest, conds + ((t, flip),), list(events), dict(env))
                return
            if isinstance(st, ast.Assign) and isinstance(st.value, ast.IfExp) and len(st.targets) == 1:
                # x = A if c else B  ==  if c: x = A else: x = B
                a = ast.copy_location(ast.Assign(targets=st.targets, value=st.value.body), st)
                b = ast.copy_location(ast.Assign(targets=st.targets, value=st.value.orelse), st)
                new = ast.copy_location(ast.If(test=st.value.test, body=[a], orelse=[b]), st)
                go([new] + list(stmts[i + 1:]), conds, list(events), dict(env))
                return
            if isinstance(st, ast.Continue):
                results.append(Path(conds, events, 'continue'))
                return
            if isinstance(st, ast.Break):
                results.append(Path(conds, events, 'break'))
                return
            if isinstance(st, ast.Return):
                events.append(('return', src(inline(st.value, env)) if st.value else 'None', st.lineno))
                results.append(Path(conds, events, 'return'))
                return
            if isinstance(st, ast.Raise):
                events.append(('raise', src(st.exc) if st.exc else '', st.lineno))
                results.append(Path(conds, events, 'raise'))
                return
            _simple(st, stack, env, events)
        results.append(Path(conds, events, 'fall'))

    go(list(stmts), (), [], dict(env))
    return results


def _triple(node, env):
    node = inline(node, env)
    if isinstance(node, ast.Tuple) and len(node.elts) == 3:
        return tuple(src(e) for e in node.elts), node
    return None, node


def _simple(st, stack, env, events):
    ln = getattr(st, 'lineno', 0)
    if isinstance(st, ast.Assign) and len(st.targets) == 1 and isinstance(st.targets[0], ast.Name):
        name = st.targets[0].id
        val = inline(st.value, env)
        for c in ast.walk(st.value):
            if isinstance(c, ast.Call):
                _call_event(c, env, events, ln)
        env[name] = val
        events.append(('set', name, '=', src(val), ln))
        return
    if isinstance(st, ast.Assign) and len(st.targets) == 1 and isinstance(st.targets[0], ast.Tuple) \
            and all(isinstance(e, ast.Name) for e in st.targets[0].elts) and isinstance(st.value, ast.Call):
        # a, b = f(...): every name is rebound to a component of the call's result
        val = inline(st.value, env)
        for c in ast.walk(st.value):
            if isinstance(c, ast.Call):
                _call_event(c, env, events, ln)
        for i, e in enumerate(st.targets[0].elts):
            env.pop(e.id, None)
            events.append(('set', e.id, '=', '%s[%d]' % (src(val), i), ln))
        return
    if isinstance(st, ast.AugAssign) and isinstance(st.target, ast.Name):
        op = {ast.Add: '+=', ast.Sub: '-='}.get(type(st.op), '?=')
        for c in ast.walk(st.value):
            if isinstance(c, ast.Call):
                _call_event(c, env, events, ln)
        events.append(('set', st.target.id, op, src(inline(st.value, env)), ln))
        env.pop(st.target.id, None)
        return
    if isinstance(st, ast.Expr):
        v = st.value
        if isinstance(v, (ast.Yield,)):
            events.append(('yield', src(inline(v.value, env)) if v.value else 'None', ln))
            return
        if isinstance(v, ast.Call) and isinstance(v.func, ast.Attribute) \
                and isinstance(v.func.value, ast.Name) and v.func.value.id == stack:
            if v.func.attr == 'append' and len(v.args) == 1:
                t, node = _triple(v.args[0], env)
                if t:
                    events.append(('push', t[0], t[1], t[2], {'reversed': False, 'iter': False}, ln))
                else:
                    events.append(('push?', src(node), ln))
                return
            if v.func.attr == 'extend' and len(v.args) == 1:
                a = v.args[0]
                if isinstance(a, (ast.GeneratorExp, ast.ListComp)) and len(a.generators) == 1:
                    gen = a.generators[0]
                    it = inline(gen.iter, env)
                    rev = False
                    if isinstance(it, ast.Call) and isinstance(it.func, ast.Name) \
                            and it.func.id == 'reversed' and len(it.args) == 1:
                        rev = True
                        it = it.args[0]
                    elif isinstance(it, ast.Subscript) and isinstance(it.slice, ast.Slice) \
                            and it.slice.lower is None and it.slice.upper is None \
                            and src(it.slice.step) == '-1':
                        rev = True
                        it = it.value
                    tv = gen.target.id if isinstance(gen.target, ast.Name) else None
                    elt = a.elt
                    if isinstance(elt, ast.Tuple) and len(elt.elts) == 3 and tv \
                            and isinstance(elt.elts[2], ast.Name) and elt.elts[2].id == tv \
                            and not gen.ifs:
                        env2 = {k: v2 for k, v2 in env.items() if k != tv}
                        events.append(('push',
                                       src(inline(elt.elts[0], env2)),
                                       src(inline(elt.elts[1], env2)),
                                       'each(' + src(it) + ')',
                                       {'reversed': rev, 'iter': True}, ln))
                        return
                events.append(('push?', src(a), ln))
                return
        for c in ast.walk(v):
            if isinstance(c, ast.Call):
                _call_event(c, env, events, ln)
        return
    if isinstance(st, ast.For) and isinstance(st.target, ast.Name) and len(st.body) == 1 and not st.orelse:
        b = st.body[0]
        if isinstance(b, ast.Expr) and isinstance(b.value, ast.Call) and isinstance(b.value.func, ast.Attribute) \
                and isinstance(b.value.func.value, ast.Name) and b.value.func.value.id == stack \
                and b.value.func.attr == 'append' and len(b.value.args) == 1:
            elt = b.value.args[0]
            tv = st.target.id
            if isinstance(elt, ast.Tuple) and len(elt.elts) == 3 and isinstance(elt.elts[2], ast.Name) and elt.elts[2].id == tv:
                it = inline(st.iter, env)
                rev = False
                if isinstance(it, ast.Call) and isinstance(it.func, ast.Name) and it.func.id == 'reversed' and len(it.args) == 1:
                    rev = True
                    it = it.args[0]
                elif isinstance(it, ast.Subscript) and isinstance(it.slice, ast.Slice) and it.slice.lower is None \
                        and it.slice.upper is None and src(it.slice.step) == '-1':
                    rev = True
                    it = it.value
                env2 = {k: v2 for k, v2 in env.items() if k != tv}
                events.append(('push', src(inline(elt.elts[0], env2)), src(inline(elt.elts[1], env2)),
                               'each(' + src(it) + ')', {'reversed': rev, 'iter': True}, ln))
                return
    for c in ast.walk(st):
        if isinstance(c, ast.Call):
            _call_event(c, env, events, ln)


def _call_event(c, env, events, ln):
    name = call_name(c)
    kws = {k.arg: src(inline(k.value, env)) for k in c.keywords if k.arg}
    args = [src(inline(a, env)) for a in c.args]
    events.append(('call', name, args, kws, ln))
