"""E9 -- verdict collection, known-finding matching, evidence and replay files."""
import json
import os
import time

VERIF = os.path.dirname(os.path.dirname(os.path.abspath(__file__)))
EVIDENCE_DIR = os.path.join(VERIF, 'evidence')
REPLAY_DIR = os.path.join(EVIDENCE_DIR, 'replay')
KNOWN_FILE = os.path.join(VERIF, 'known_findings.json')


def load_known():
    try:
        with open(KNOWN_FILE) as f:
            data = json.load(f)
    except FileNotFoundError:
        return []
    return data.get('known', [])


class Instance:
    __slots__ = ('rule', 'construct', 'where', 'verdict', 'detail', 'nontrivial')

    def __init__(self, rule, construct, where, verdict, detail, nontrivial):
        self.rule = rule
        self.construct = construct
        self.where = where
        self.verdict = verdict
        self.detail = detail
        self.nontrivial = nontrivial

    def as_dict(self):
        return {'rule': self.rule, 'construct': self.construct, 'where': self.where,
                'verdict': self.verdict, 'detail': self.detail}


class Report:
    """One per property run.  ``ok``/``fail``/``undecided``/``note`` record rule instances;
    ``finish`` writes evidence, prints the verdict lines and returns the exit code."""

    def __init__(self, prop, tier='quick', seed=0, quiet=False, write=True):
        self.prop = prop
        self.tier = tier
        self.seed = seed
        self.quiet = quiet
        self.write = write
        self.t0 = time.time()
        self.instances = []
        self.floors = []          # (rule, found, expected)
        self.notes = []
        self.analysed = {}
        self.explanation = ''
        self.not_decided = ''
        self.assumptions = []
        self.paths = 0            # paths / terms / facts enumerated (evaluations)
        self.selfvalidation = None
        self.errors = []

    # -- recording --------------------------------------------------------------------
    def ok(self, rule, construct, where='', detail='', nontrivial=False):
        self.instances.append(Instance(rule, construct, where, 'holds', detail, nontrivial))

    def fail(self, rule, construct, where='', detail='', nontrivial=True):
        self.instances.append(Instance(rule, construct, where, 'VIOLATED', detail, nontrivial))

    def undecided(self, rule, construct, where='', detail=''):
        self.instances.append(Instance(rule, construct, where, 'undecided', detail, False))

    def check(self, cond, rule, construct, where='', detail='', fail_detail=None, nontrivial=False):
        if cond:
            self.ok(rule, construct, where, detail, nontrivial)
        else:
            self.fail(rule, construct, where, fail_detail or detail)
        return cond

    def note(self, text):
        self.notes.append(text)

    def floor(self, rule, found, expected):
        self.floors.append((rule, found, expected))

    def count(self, n=1):
        self.paths += n

    def error(self, text):
        self.errors.append(text)

    # -- verdict ----------------------------------------------------------------------
    def violations(self):
        return [i for i in self.instances if i.verdict == 'VIOLATED']

    def finish(self):
        known = [k for k in load_known() if k.get('property') == self.prop]
        viol = self.violations()
        new, listed = [], []
        for v in viol:
            hit = None
            for k in known:
                if k.get('rule') == v.rule and k.get('construct') == v.construct:
                    hit = k
                    break
            (listed if hit else new).append((v, hit))
        undec = [i for i in self.instances if i.verdict == 'undecided']
        floor_fail = [(r, f, e) for r, f, e in self.floors if f < e]
        lines = []
        code = 0
        for v, k in listed:
            lines.append('KNOWN-FINDING: property=%s %s %s %s -- %s' % (
                self.prop, v.rule, v.construct, v.where, k.get('what', v.detail)))
        stale = [k for k in known
                 if not any(k.get('rule') == v.rule and k.get('construct') == v.construct
                            for v in viol)]
        for k in stale:
            self.notes.append('known finding no longer observed (rule %s construct %s)' % (
                k.get('rule'), k.get('construct')))
        if self.errors or undec or floor_fail:
            code = 2
            for e in self.errors:
                lines.append('ANALYSIS-ERROR property=%s %s' % (self.prop, e))
            for i in undec:
                lines.append('ANALYSIS-ERROR property=%s undecided %s %s %s: %s' % (
                    self.prop, i.rule, i.construct, i.where, i.detail))
            for r, f, e in floor_fail:
                lines.append('ANALYSIS-ERROR property=%s rule %s matched %d instances, '
                             'floor confirmed by hand is %d (vacuous pass refused)' % (
                                 self.prop, r, f, e))
        if self.write and os.path.isdir(REPLAY_DIR):
            # replay files of earlier runs of this property are stale now
            import glob as _glob
            for old_ in _glob.glob(os.path.join(REPLAY_DIR, '%s-*.json' % self.prop)):
                try:
                    os.remove(old_)
                except OSError:
                    pass
        if new:
            code = 1
            if self.write:
                os.makedirs(REPLAY_DIR, exist_ok=True)
            for n, (v, _) in enumerate(new):
                if n >= 30:
                    lines.append('  ... and %d more violated rule instances in this run (see the evidence file)' % (len(new) - 30))
                    break
                path = os.path.join(REPLAY_DIR, '%s-%d.json' % (self.prop, n))
                if self.write:
                    with open(path, 'w') as f:
                        json.dump({'property': self.prop, 'rule': v.rule,
                                   'construct': v.construct, 'where': v.where,
                                   'detail': v.detail, 'tier': self.tier}, f, indent=1)
                lines.append('VIOLATION property=%s replay=%s' % (self.prop, path))
                lines.append('  %s rule=%s construct=%s: %s' % (
                    v.where, v.rule, v.construct, v.detail))
        wall = time.time() - self.t0
        obligations = len(self.instances)
        discharged = sum(1 for i in self.instances if i.verdict == 'holds')
        distinct = len({(i.rule, i.construct) for i in self.instances if i.nontrivial})
        samples = [i.as_dict() for i in self.instances if i.verdict != 'holds'][:40]
        # a spread of holding instances: first of each rule, then fill
        seen = set()
        for i in self.instances:
            if i.verdict == 'holds' and i.rule not in seen:
                seen.add(i.rule)
                samples.append(i.as_dict())
        for i in self.instances:
            if len(samples) >= 60:
                break
            if i.verdict == 'holds' and i.as_dict() not in samples:
                samples.append(i.as_dict())
        ev = {
            'property_id': self.prop,
            'tier': self.tier,
            'seed': self.seed,
            'level': 'other',
            'coverage': {
                'explanation': self.explanation + (
                    ' NOT DECIDED: ' + self.not_decided if self.not_decided else ''),
                'obligations': obligations,
                'discharged': discharged,
                'evaluations': max(1, obligations + self.paths),
                'distinct_nontrivial': distinct,
                'rule': 'one rule instance per (rule id, construct key) found in the current '
                        'source; non-trivial = needed a path / term / dataflow computation '
                        '(not a table lookup); distinct by (rule, construct)',
                'samples': samples,
                'analysed': self.analysed,
                'floors': [{'rule': r, 'found': f, 'expected_min': e} for r, f, e in self.floors],
                'notes': self.notes,
                'known_findings_reported': [v.construct for v, _ in listed],
                'exhaustive': False,
            },
            'assumptions': self.assumptions,
            'wall_s': round(wall, 3),
            'violations': len(new),
        }
        if self.selfvalidation is not None:
            ev['coverage']['selfvalidation'] = self.selfvalidation
        if code == 2:
            ev['coverage']['analysis_errors'] = [l for l in lines if l.startswith('ANALYSIS-ERROR')]
        if self.write:
            os.makedirs(EVIDENCE_DIR, exist_ok=True)
            with open(os.path.join(EVIDENCE_DIR, self.prop + '.json'), 'w') as f:
                json.dump(ev, f, indent=1, sort_keys=False)
        if not self.quiet:
            print('%s tier=%s: %d rule instances, %d hold, %d violated (%d listed as known), '
                  '%d undecided; %d paths/terms; %.2fs' % (
                      self.prop, self.tier, obligations, discharged, len(viol), len(listed),
                      len(undec), self.paths, wall))
            for r, f, e in self.floors:
                print('  floor %-28s found %3d (min %d)' % (r, f, e))
            for n in self.notes:
                print('  note: ' + n)
            for l in lines:
                print(l)
        self.exit_code = code
        self.lines = lines
        return code
