"""Size constants the code itself compares against (boundary-value scenario synthesis).

The interpreted models run the package's functions on small scenarios; a branch that is only taken for "more than N" of something is
invisible to them unless a scenario is larger than N.  N is not guessed: it is read from the source.  ``mine`` returns the integer
constants (literal, or a module-level name bound once to an integer literal) that occur inside the given functions in a position where a
size is decided:

  * an operand of a comparison, or a factor / divisor / summand of such an operand (``len(x) > 16 * max_len``, ``n > N + N // 10``),
  * an argument of range / islice / take / min / max, a slice bound or a repetition count (``docs[:64]``, ``(a, b) * 128``),
  * the value a local name is bound to when that name is later compared or used as such a bound (``docs_left = 512 ... while
    docs_left >= 0``, ``run = 2 * WORDS - 1 ... parts[i:i + run]``).

Constants below ``least`` are left out (the scenarios of the models already cover both sides of 0..3), as are constants above ``most``
(reported by the caller as a scale the model cannot reach).  The result maps each constant to the places it was read from, so that the
evidence can say why a scaled scenario exists."""
import ast

from .astutil import src, call_name

SIZE_CALLS = {'range', 'islice', 'take', 'min', 'max', 'deque'}


def _module_ints(mod):
    out = {}
    counts = {}
    for s in mod.tree.body:
        if isinstance(s, ast.Assign) and len(s.targets) == 1 and isinstance(s.targets[0], ast.Name):
            counts[s.targets[0].id] = counts.get(s.targets[0].id, 0) + 1
            v = s.value
            if isinstance(v, ast.Constant) and type(v.value) is int:
                out[s.targets[0].id] = v.value
    out = {k: v for k, v in out.items() if counts[k] == 1}
    # class-level integer constants, read as self.NAME / cls.NAME / Class.NAME
    for c in ast.walk(mod.tree):
        if isinstance(c, ast.ClassDef):
            for s in c.body:
                if isinstance(s, ast.Assign) and len(s.targets) == 1 and isinstance(s.targets[0], ast.Name) \
                        and isinstance(s.value, ast.Constant) and type(s.value.value) is int:
                    out.setdefault('.' + s.targets[0].id, s.value.value)
    return out


def _ints_in(expr, consts):
    """integer constants that take part in the arithmetic of expr (not inside calls other than len/min/max/abs/int/round)"""
    found = []

    def walk(e):
        if isinstance(e, ast.Constant):
            if type(e.value) is int:
                found.append((e.value, e))
        elif isinstance(e, ast.Name):
            if e.id in consts:
                found.append((consts[e.id], e))
        elif isinstance(e, ast.Attribute):
            if ('.' + e.attr) in consts and isinstance(e.value, ast.Name):
                found.append((consts['.' + e.attr], e))
        elif isinstance(e, ast.BinOp):
            walk(e.left)
            walk(e.right)
        elif isinstance(e, ast.UnaryOp):
            walk(e.operand)
        elif isinstance(e, ast.IfExp):
            walk(e.body)
            walk(e.orelse)
        elif isinstance(e, (ast.Tuple, ast.List)):
            for x in e.elts:
                walk(x)
        elif isinstance(e, ast.Call) and call_name(e).split('.')[-1] in ('min', 'max', 'abs', 'int', 'round'):
            for a in e.args:
                walk(a)
    walk(expr)
    return found


def mine(mods, fns=None, least=4, most=4096):
    """mods: loader modules; fns: iterable of function nodes (default: every function of the modules, nested ones included).
    Returns {constant: [where, ...]} sorted by constant."""
    out = {}
    beyond = {}
    for mod in mods:
        consts = _module_ints(mod)
        nodes = [n for n in ast.walk(mod.tree) if isinstance(n, (ast.FunctionDef, ast.AsyncFunctionDef))] if fns is None else \
            [n for n in fns if getattr(n, '_mod', mod) is mod]
        seen = set()
        for fn in nodes:
            compared = set()
            inits = {}
            for n in ast.walk(fn):
                if id(n) in seen:
                    continue
                seen.add(id(n))
                hits = []
                if isinstance(n, ast.Compare):
                    for e in [n.left] + list(n.comparators):
                        hits += _ints_in(e, consts)
                        for x in ast.walk(e):
                            if isinstance(x, ast.Name):
                                compared.add(x.id)
                elif isinstance(n, ast.Call) and call_name(n).split('.')[-1] in SIZE_CALLS:
                    for a in n.args:
                        hits += _ints_in(a, consts)
                        compared.update(x.id for x in ast.walk(a) if isinstance(x, ast.Name))
                elif isinstance(n, ast.Slice):
                    for e in (n.lower, n.upper, n.step):
                        if e is not None:
                            hits += _ints_in(e, consts)
                            compared.update(x.id for x in ast.walk(e) if isinstance(x, ast.Name))
                elif isinstance(n, ast.BinOp) and isinstance(n.op, ast.Mult) and (
                        isinstance(n.left, (ast.Tuple, ast.List)) or isinstance(n.right, (ast.Tuple, ast.List))):
                    hits += _ints_in(n.right if isinstance(n.left, (ast.Tuple, ast.List)) else n.left, consts)
                elif isinstance(n, ast.Assign) and len(n.targets) == 1 and isinstance(n.targets[0], ast.Name):
                    inits.setdefault(n.targets[0].id, []).extend(_ints_in(n.value, consts))
                for v, e in hits:
                    _note(out, beyond, v, mod, e, least, most)
            for name, hs in inits.items():
                if name in compared:
                    for v, e in hs:
                        _note(out, beyond, v, mod, e, least, most)
    return dict(sorted(out.items())), dict(sorted(beyond.items()))


def _note(out, beyond, v, mod, e, least, most):
    v = abs(v)
    if v < least:
        return
    where = '%s:%d %s' % (mod.relpath, e.lineno, src(e))
    tgt = out if v <= most else beyond
    if where not in tgt.setdefault(v, []):
        tgt[v].append(where)
