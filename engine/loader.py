"""E1 -- loader / resolver.

Parses every ``*.py`` under ``<repo>/prettyprinter`` with ``ast`` on every run (never
imports the package), builds per-module symbol tables and resolves names across
modules.  An in-memory overlay ``{relative path: source}`` replaces file contents so
that self-validation never touches the disk.
"""
import ast
import hashlib
import os

REPO_ROOT = os.environ.get('VERIF_REPO', '/repo')
PKG = 'prettyprinter'


class AnalysisError(Exception):
    """The analysis cannot be carried out (anchor vanished, unknown idiom, ...).
    Reported as ANALYSIS-ERROR / exit 2 -- never as a pass and never as a violation."""


class FunctionInfo:
    __slots__ = ('module', 'qualname', 'node', 'parent', 'cls')

    def __init__(self, module, qualname, node, parent=None, cls=None):
        self.module = module
        self.qualname = qualname
        self.node = node
        self.parent = parent      # enclosing FunctionInfo for nested defs
        self.cls = cls            # ClassInfo for methods

    @property
    def name(self):
        return self.node.name

    @property
    def params(self):
        a = self.node.args
        return [x.arg for x in a.posonlyargs + a.args] + \
            ([a.vararg.arg] if a.vararg else []) + \
            [x.arg for x in a.kwonlyargs] + \
            ([a.kwarg.arg] if a.kwarg else [])

    @property
    def where(self):
        return '%s:%d' % (self.module.relpath, self.node.lineno)

    @property
    def key(self):
        return '%s:%s' % (self.module.name, self.qualname)

    def __repr__(self):
        return '<fn %s>' % self.key


class ClassInfo:
    __slots__ = ('module', 'name', 'node', 'methods', 'bases')

    def __init__(self, module, node):
        self.module = module
        self.name = node.name
        self.node = node
        self.methods = {}
        self.bases = [ast.unparse(b) for b in node.bases]

    @property
    def where(self):
        return '%s:%d' % (self.module.relpath, self.node.lineno)


class Module:
    def __init__(self, name, relpath, src):
        self.name = name
        self.relpath = relpath
        self.src = src
        try:
            self.tree = ast.parse(src, filename=relpath)
        except SyntaxError as e:
            raise AnalysisError('cannot parse %s: %s' % (relpath, e))
        self.funcs = {}      # qualname -> FunctionInfo (incl. nested and methods)
        self.classes = {}    # name -> ClassInfo
        self.assigns = {}    # top-level name -> list of value exprs (in order)
        self.imports = {}    # local name -> (module dotted, attr or None)
        self.is_pkg = relpath.endswith('__init__.py')
        self._index()

    # -- indexing -------------------------------------------------------------------
    def _pkg_of(self):
        if self.is_pkg:
            return self.name
        return self.name.rsplit('.', 1)[0] if '.' in self.name else ''

    def _abs_module(self, level, mod):
        if level == 0:
            return mod or ''
        base = self._pkg_of().split('.')
        if level > 1:
            base = base[:len(base) - (level - 1)]
        return '.'.join(base + ([mod] if mod else []))

    def _index(self):
        def add_fn(node, prefix, parent, cls):
            qn = prefix + node.name
            fi = FunctionInfo(self, qn, node, parent, cls)
            # a later def of the same qualname wins (python semantics); keep last
            self.funcs[qn] = fi
            if cls is not None and parent is None:
                cls.methods[node.name] = fi
            walk_body(node.body, qn + '.<locals>.', fi, None)

        def walk_body(body, prefix, parent, cls):
            for st in body:
                visit_stmt(st, prefix, parent, cls)

        def visit_stmt(st, prefix, parent, cls):
            if isinstance(st, (ast.FunctionDef, ast.AsyncFunctionDef)):
                add_fn(st, prefix, parent, cls)
            elif isinstance(st, ast.ClassDef):
                ci = ClassInfo(self, st)
                if parent is None and cls is None:
                    self.classes[st.name] = ci
                walk_body(st.body, prefix + st.name + '.', parent, ci)
            elif isinstance(st, (ast.If, ast.For, ast.While, ast.With, ast.Try)):
                for fld in ('body', 'orelse', 'finalbody'):
                    walk_body(getattr(st, fld, []) or [], prefix, parent, cls)
                for h in getattr(st, 'handlers', []) or []:
                    walk_body(h.body, prefix, parent, cls)

        walk_body(self.tree.body, '', None, None)

        def top(body):
            for st in body:
                if isinstance(st, ast.Assign):
                    for t in st.targets:
                        if isinstance(t, ast.Name):
                            self.assigns.setdefault(t.id, []).append(st.value)
                        elif isinstance(t, ast.Tuple) and isinstance(st.value, ast.Tuple) \
                                and len(t.elts) == len(st.value.elts):
                            for a, b in zip(t.elts, st.value.elts):
                                if isinstance(a, ast.Name):
                                    self.assigns.setdefault(a.id, []).append(b)
                elif isinstance(st, ast.AnnAssign) and isinstance(st.target, ast.Name) \
                        and st.value is not None:
                    self.assigns.setdefault(st.target.id, []).append(st.value)
                elif isinstance(st, ast.Import):
                    for al in st.names:
                        if al.asname:
                            self.imports[al.asname] = (al.name, None)
                        else:
                            # ``import a.b`` binds ``a``
                            self.imports[al.name.split('.')[0]] = (al.name.split('.')[0], None)
                elif isinstance(st, ast.ImportFrom):
                    mod = self._abs_module(st.level, st.module)
                    for al in st.names:
                        self.imports[al.asname or al.name] = (mod, al.name)
                elif isinstance(st, (ast.If, ast.Try)):
                    top(st.body)
                    top(getattr(st, 'orelse', []) or [])
                    for h in getattr(st, 'handlers', []) or []:
                        top(h.body)
                    top(getattr(st, 'finalbody', []) or [])
        top(self.tree.body)

    def digest(self):
        return hashlib.sha256(self.src.encode()).hexdigest()[:16]


class Repo:
    """All modules of the package, parsed from the working tree (plus overlay)."""

    def __init__(self, root=None, overlay=None):
        self.root = root or REPO_ROOT
        self.overlay = dict(overlay or {})
        self.modules = {}
        pkgdir = os.path.join(self.root, PKG)
        if not os.path.isdir(pkgdir):
            raise AnalysisError('package directory %s not found' % pkgdir)
        seen = set()
        for dirpath, dirnames, filenames in os.walk(pkgdir):
            dirnames[:] = sorted(d for d in dirnames if d != '__pycache__')
            for fn in sorted(filenames):
                if not fn.endswith('.py'):
                    continue
                full = os.path.join(dirpath, fn)
                rel = os.path.relpath(full, self.root)
                seen.add(rel)
                if rel in self.overlay:
                    src = self.overlay[rel]
                else:
                    with open(full, encoding='utf-8') as f:
                        src = f.read()
                self._add(rel, src)
        for rel, src in self.overlay.items():
            if rel not in seen and rel.startswith(PKG + '/') and rel.endswith('.py'):
                self._add(rel, src)

    def _add(self, rel, src):
        parts = rel[:-3].split(os.sep)
        if parts[-1] == '__init__':
            parts = parts[:-1]
        name = '.'.join(parts)
        self.modules[name] = Module(name, rel, src)

    # -- lookup ---------------------------------------------------------------------
    def module(self, short):
        """``module('layout')`` -> prettyprinter.layout ; ``module('')`` -> the package."""
        name = PKG + ('.' + short if short else '')
        m = self.modules.get(name)
        if m is None:
            raise AnalysisError('module %s vanished' % name)
        return m

    def func(self, short_module, qualname, required=True):
        m = self.module(short_module)
        f = m.funcs.get(qualname)
        if f is None and required:
            raise AnalysisError('anchor %s:%s vanished' % (m.name, qualname))
        return f

    def cls(self, short_module, name, required=True):
        m = self.module(short_module)
        c = m.classes.get(name)
        if c is None and required:
            raise AnalysisError('anchor class %s:%s vanished' % (m.name, name))
        return c

    def all_functions(self, core_only=False):
        for mn in sorted(self.modules):
            if core_only and '.extras' in mn:
                continue
            m = self.modules[mn]
            for qn in m.funcs:
                yield m.funcs[qn]

    def resolve(self, module, name, _depth=0):
        """Resolve a bare name used in ``module`` to
        ('func', FunctionInfo) | ('class', ClassInfo) | ('const', module, expr) |
        ('module', dotted) | ('external', 'mod.attr') | None."""
        if _depth > 8:
            return None
        if name in module.funcs and '.' not in name:
            return ('func', module.funcs[name])
        if name in module.classes:
            return ('class', module.classes[name])
        if name in module.assigns:
            return ('const', module, module.assigns[name][-1])
        if name in module.imports:
            mod, attr = module.imports[name]
            if attr is None:
                if mod in self.modules:
                    return ('module', mod)
                return ('external', mod)
            target = self.modules.get(mod)
            if target is None:
                sub = self.modules.get(mod + '.' + attr)
                if sub is not None:
                    return ('module', sub.name)
                return ('external', (mod + '.' + attr) if mod else attr)
            # ``from .prettyprinter import x`` resolves by file, not by attribute
            sub = self.modules.get(mod + '.' + attr)
            r = self.resolve(target, attr, _depth + 1)
            if r is None and sub is not None:
                return ('module', sub.name)
            return r
        return None

    def resolve_const_expr(self, module, name):
        r = self.resolve(module, name)
        if r and r[0] == 'const':
            return r[1], r[2]
        return None

    def digest(self):
        h = hashlib.sha256()
        for mn in sorted(self.modules):
            h.update(mn.encode())
            h.update(self.modules[mn].src.encode())
        return h.hexdigest()[:16]

    def stats(self):
        return {
            'modules': len(self.modules),
            'functions': sum(len(m.funcs) for m in self.modules.values()),
            'classes': sum(len(m.classes) for m in self.modules.values()),
            'source_digest': self.digest(),
        }


# ---------------------------------------------------------------------------------------
# A7 -- static registry: every register_pretty(...) application in the package


class Registration:
    __slots__ = ('key_expr', 'key', 'kind', 'fn', 'module', 'lineno', 'conditional')

    def __init__(self, key_expr, key, kind, fn, module, lineno, conditional):
        self.key_expr = key_expr      # ast expr of the registration key
        self.key = key                # normalised text: 'list', "'uuid.UUID'", 'type(None)'
        self.kind = kind              # 'class' | 'deferred' | 'predicate'
        self.fn = fn                  # FunctionInfo or None when unresolvable
        self.module = module
        self.lineno = lineno
        self.conditional = conditional

    def __repr__(self):
        return '<reg %s %s -> %s>' % (self.kind, self.key, self.fn.qualname if self.fn else '?')


def _reg_call(node):
    """node is ``register_pretty(X)`` / ``register_pretty(predicate=P)`` -> (expr, kind)"""
    if not (isinstance(node, ast.Call) and isinstance(node.func, ast.Name)
            and node.func.id == 'register_pretty'):
        return None
    key = None
    kind = 'class'
    if node.args:
        key = node.args[0]
    for kw in node.keywords:
        if kw.arg == 'type':
            key = kw.value
        elif kw.arg == 'predicate':
            key = kw.value
            kind = 'predicate'
    if key is None:
        return None
    if kind == 'class' and (
            (isinstance(key, ast.Constant) and isinstance(key.value, str))
            or isinstance(key, (ast.BinOp, ast.JoinedStr))):
        kind = 'deferred'
    return key, kind


def static_registry(repo):
    regs = []
    for mn in sorted(repo.modules):
        m = repo.modules[mn]

        def fn_of(expr):
            if isinstance(expr, ast.Name):
                r = repo.resolve(m, expr.id)
                if r and r[0] == 'func':
                    return r[1]
            return None

        def visit(body, conditional, scope_prefix=''):
            for st in body:
                if isinstance(st, ast.FunctionDef):
                    for dec in st.decorator_list:
                        rc = _reg_call(dec)
                        if rc:
                            regs.append(Registration(
                                rc[0], ast.unparse(rc[0]), rc[1],
                                m.funcs.get(scope_prefix + st.name), m, dec.lineno, conditional))
                    # registrations performed inside install() etc.
                    visit(st.body, True, scope_prefix + st.name + '.<locals>.')
                elif isinstance(st, ast.Expr) and isinstance(st.value, ast.Call) \
                        and _reg_call(st.value.func):
                    rc = _reg_call(st.value.func)
                    arg = st.value.args[0] if st.value.args else None
                    regs.append(Registration(
                        rc[0], ast.unparse(rc[0]), rc[1], fn_of(arg), m, st.lineno, conditional))
                elif isinstance(st, (ast.If, ast.For, ast.While, ast.With, ast.Try)):
                    for fld in ('body', 'orelse', 'finalbody'):
                        visit(getattr(st, fld, []) or [], True, scope_prefix)
                    for h in getattr(st, 'handlers', []) or []:
                        visit(h.body, True, scope_prefix)
        visit(m.tree.body, False)
    return regs
