"""E8 -- type environment for foreign classes and modules.

The attribute universe of a class named by a registration is read from the class's *source*
when it is written in Python (class body, ``self.x = ...`` in methods, bases) and from
``dir(T)`` when the class is C-implemented and its instances have no ``__dict__`` (then
``dir`` is complete).  The interpreter's stdlib / site-packages act as stub files here; the
repository itself is never imported.
"""
import ast
import importlib
import importlib.util
import inspect
import os
import sys


def find_source(modname):
    try:
        spec = importlib.util.find_spec(modname)
    except (ImportError, ValueError, AttributeError):
        return None
    if spec is None or not spec.origin or not spec.origin.endswith('.py'):
        return None
    return spec.origin


_AST_CACHE = {}


def module_ast(path):
    if path not in _AST_CACHE:
        with open(path, encoding='utf-8') as f:
            _AST_CACHE[path] = ast.parse(f.read())
    return _AST_CACHE[path]


def class_universe_from_source(path, clsname, _depth=0):
    """attribute names defined by a Python class: class-level names, methods/properties,
    ``self.x`` stores in methods, ``__slots__``, and those of same-file bases"""
    tree = module_ast(path)
    names = set()
    for node in ast.walk(tree):
        if isinstance(node, ast.ClassDef) and node.name == clsname:
            for st in node.body:
                if isinstance(st, (ast.FunctionDef, ast.AsyncFunctionDef)):
                    names.add(st.name)
                    for s in ast.walk(st):
                        if isinstance(s, ast.Attribute) and isinstance(s.ctx, ast.Store) \
                                and isinstance(s.value, ast.Name) and s.value.id in ('self', 'cls'):
                            names.add(s.attr)
                        # object.__setattr__(self, 'x', v)
                        if isinstance(s, ast.Call) and isinstance(s.func, ast.Attribute) and s.func.attr == '__setattr__' \
                                and len(s.args) >= 2 and isinstance(s.args[1], ast.Constant):
                            names.add(str(s.args[1].value))
                elif isinstance(st, ast.Assign):
                    for t in st.targets:
                        for n in ast.walk(t):
                            if isinstance(n, ast.Name):
                                names.add(n.id)
                        if any(isinstance(n, ast.Name) and n.id == '__slots__' for n in ast.walk(t)):
                            for c in ast.walk(st.value):
                                if isinstance(c, ast.Constant) and isinstance(c.value, str):
                                    names.add(c.value)
                elif isinstance(st, ast.AnnAssign) and isinstance(st.target, ast.Name):
                    names.add(st.target.id)
            if _depth < 4:
                for b in node.bases:
                    if isinstance(b, ast.Name):
                        names |= class_universe_from_source(path, b.id, _depth + 1)
            return names
    return names


def resolve_class(dotted_name):
    """import a *foreign* (stdlib / site-packages) class by dotted name; None if impossible"""
    parts = dotted_name.split('.')
    for i in range(len(parts) - 1, 0, -1):
        modname = '.'.join(parts[:i])
        try:
            mod = importlib.import_module(modname)
        except Exception:
            continue
        obj = mod
        try:
            for p in parts[i:]:
                obj = getattr(obj, p)
        except AttributeError:
            continue
        return obj
    return None


def attribute_universe(cls):
    """(names, authoritative).  authoritative=True: a name not in the set definitely does not
    exist on instances (C type without instance __dict__)."""
    names = set(dir(cls))
    has_dict = getattr(cls, '__dictoffset__', 1) != 0
    is_c = False
    try:
        path = inspect.getsourcefile(cls)
    except TypeError:
        path = None
        is_c = True
    if path and os.path.exists(path):
        for k in cls.__mro__:
            try:
                p = inspect.getsourcefile(k)
            except TypeError:
                continue
            if p and os.path.exists(p):
                names |= class_universe_from_source(p, k.__name__)
    authoritative = is_c and not has_dict
    return names, authoritative


def dict_literal_keys(path, varname):
    """keys of a module-level dict literal ``varname = {...}`` in a foreign source file"""
    tree = module_ast(path)
    for st in tree.body:
        if isinstance(st, ast.Assign) and any(isinstance(t, ast.Name) and t.id == varname for t in st.targets) \
                and isinstance(st.value, ast.Dict):
            return [k.value for k in st.value.keys if isinstance(k, ast.Constant)]
    return None
