"""E2/E3 -- structured forward dataflow (typestate) over one function body.

Python has no goto, so instead of building an explicit CFG the solver walks the statement
tree and propagates a *set of abstract states* (path-sensitive up to state equality),
keeping separate exits for fall-through, return, break, continue and raise.  ``try`` /
``except`` / ``else`` / ``finally`` follow CPython semantics; an exception whose class is only
known as "some Exception" ('*') is both delivered to a narrower handler and propagated past it.

The client supplies
  transfer(stmt, state)   -> iterable of successor states for a simple statement
  raises(stmt, state)     -> iterable of (state_at_raise, exception_class_name or '*')
  branch(test, state)     -> (states_if_true, states_if_false)  (optional refinement)
"""
import ast

from .astutil import handler_catches, exc_is_subclass, dotted

NO_RAISE_BUILTINS = {
    'isinstance', 'issubclass', 'type', 'id', 'callable', 'hasattr', 'bool', 'partial',
    'set', 'list', 'tuple', 'dict', 'frozenset', 'object',
}


class Outcome:
    __slots__ = ('normal', 'returns', 'raises', 'breaks', 'continues')

    def __init__(self):
        self.normal = set()
        self.returns = set()      # (state, lineno)
        self.raises = set()       # (state, excname, lineno)
        self.breaks = set()
        self.continues = set()

    def absorb_exits(self, other):
        self.returns |= other.returns
        self.raises |= other.raises
        self.breaks |= other.breaks
        self.continues |= other.continues


class Flow:
    def __init__(self, transfer, raises=None, branch=None, max_iter=50):
        self.transfer = transfer
        self.raises_cb = raises or default_raises
        self.branch = branch
        self.max_iter = max_iter
        self.visited_stmts = 0

    # -- public -----------------------------------------------------------------
    def run(self, fn_node, init_state):
        out = self.block(fn_node.body, {init_state})
        # falling off the end is a return
        for s in out.normal:
            out.returns.add((s, getattr(fn_node, 'end_lineno', 0) or 0))
        out.normal = set()
        return out

    # -- blocks ------------------------------------------------------------------
    def block(self, stmts, states):
        out = Outcome()
        cur = set(states)
        for st in stmts:
            if not cur:
                break
            o = self.stmt(st, cur)
            out.absorb_exits(o)
            cur = o.normal
        out.normal = cur
        return out

    def _simple(self, st, states):
        out = Outcome()
        for s in states:
            for rs, exc in self.raises_cb(st, s):
                out.raises.add((rs, exc, st.lineno))
            for ns in self.transfer(st, s):
                out.normal.add(ns)
        return out

    def _test(self, test, states, lineno):
        """evaluate a condition: may raise, may refine"""
        o = Outcome()
        t, f = set(), set()
        fake = ast.Expr(value=test)
        fake.lineno = lineno
        for s in states:
            for rs, exc in self.raises_cb(fake, s):
                o.raises.add((rs, exc, lineno))
            for ns in self.transfer(fake, s):
                if self.branch:
                    a, b = self.branch(test, ns)
                    t |= set(a)
                    f |= set(b)
                else:
                    t.add(ns)
                    f.add(ns)
        return o, t, f

    def stmt(self, st, states):
        self.visited_stmts += 1
        if isinstance(st, ast.If):
            o, t, f = self._test(st.test, states, st.lineno)
            a = self.block(st.body, t)
            b = self.block(st.orelse, f)
            o.absorb_exits(a)
            o.absorb_exits(b)
            o.normal = a.normal | b.normal
            return o
        if isinstance(st, (ast.For, ast.AsyncFor, ast.While)):
            return self._loop(st, states)
        if isinstance(st, ast.Try):
            return self._try(st, states)
        if isinstance(st, (ast.With, ast.AsyncWith)):
            o = Outcome()
            cur = set(states)
            for it in st.items:
                fake = ast.Expr(value=it.context_expr)
                fake.lineno = st.lineno
                r = self._simple(fake, cur)
                o.absorb_exits(r)
                cur = r.normal
            b = self.block(st.body, cur)
            o.absorb_exits(b)
            o.normal = b.normal
            return o
        if isinstance(st, ast.Return):
            o = Outcome()
            if st.value is not None:
                fake = ast.Expr(value=st.value)
                fake.lineno = st.lineno
                r = self._simple(fake, states)
                o.absorb_exits(r)
                states = r.normal
            for s in states:
                o.returns.add((s, st.lineno))
            return o
        if isinstance(st, ast.Raise):
            o = Outcome()
            name = '*'
            if st.exc is not None:
                e = st.exc.func if isinstance(st.exc, ast.Call) else st.exc
                d = dotted(e)
                if d:
                    name = d.split('.')[-1]
                    from .astutil import _EXC_HIER
                    if name not in _EXC_HIER:
                        name = '*'      # re-raise of a variable etc.
            for s in states:
                o.raises.add((s, name, st.lineno))
            return o
        if isinstance(st, ast.Break):
            o = Outcome()
            o.breaks = set(states)
            return o
        if isinstance(st, ast.Continue):
            o = Outcome()
            o.continues = set(states)
            return o
        if isinstance(st, (ast.FunctionDef, ast.AsyncFunctionDef, ast.ClassDef)):
            o = Outcome()
            for s in states:
                o.normal |= set(self.transfer(st, s))
            return o
        if isinstance(st, ast.Assert):
            o, t, f = self._test(st.test, states, st.lineno)
            for s in f:
                o.raises.add((s, 'AssertionError', st.lineno))
            o.normal = t
            return o
        return self._simple(st, states)

    def _loop(self, st, states):
        out = Outcome()
        is_while = isinstance(st, ast.While)
        infinite = is_while and isinstance(st.test, ast.Constant) and bool(st.test.value)
        entry = set(states)
        seen = set()
        exit_states = set()
        work = set(entry)
        for _ in range(self.max_iter):
            new = work - seen
            if not new:
                break
            seen |= new
            if is_while:
                o, t, f = self._test(st.test, new, st.lineno)
                out.absorb_exits(o)
                if not infinite:
                    exit_states |= f
                body_in = t
            else:
                fake = ast.Expr(value=st.iter)
                fake.lineno = st.lineno
                r = self._simple(fake, new)
                out.raises |= r.raises
                exit_states |= r.normal          # zero (more) iterations
                tgt = ast.Assign(targets=[st.target], value=ast.Constant(value=None))
                tgt.lineno = st.lineno
                tgt._loop_target = True
                body_in = set()
                for s in r.normal:
                    body_in |= set(self.transfer(tgt, s))
            b = self.block(st.body, body_in)
            out.returns |= b.returns
            out.raises |= b.raises
            out.normal |= b.breaks               # break leaves the loop (skips orelse)
            work = b.normal | b.continues
        if st.orelse:
            e = self.block(st.orelse, exit_states)
            out.absorb_exits(e)
            out.normal |= e.normal
        else:
            out.normal |= exit_states
        return out

    def _try(self, st, states):
        out = Outcome()
        body = self.block(st.body, states)
        pending = Outcome()                      # outcomes before ``finally``
        pending.returns |= body.returns
        pending.breaks |= body.breaks
        pending.continues |= body.continues
        # else block
        if st.orelse:
            e = self.block(st.orelse, body.normal)
            pending.absorb_exits(e)
            pending.normal |= e.normal
        else:
            pending.normal |= body.normal
        # handlers
        for (s, exc, ln) in body.raises:
            propagate = True
            for h in st.handlers:
                definite = handler_catches(h, exc) if exc != '*' else handler_catches(h, 'Exception')
                maybe = definite
                if not definite:
                    if exc == '*':
                        maybe = h.type is not None    # a narrower handler may match
                        # ...unless it only names BaseException-only classes
                    else:
                        types = h.type.elts if isinstance(h.type, ast.Tuple) else [h.type]
                        for t in types:
                            d = dotted(t)
                            if d and exc_is_subclass(d.split('.')[-1], exc):
                                maybe = True
                if maybe:
                    ho = self.block(h.body, {self._on_catch(h, s)})
                    pending.absorb_exits(ho)
                    pending.normal |= ho.normal
                if definite:
                    propagate = False
                    break
            if propagate:
                pending.raises.add((s, exc, ln))
        if not st.finalbody:
            return pending
        # finally: runs on every outcome, then resumes that outcome
        def through(states_):
            f = self.block(st.finalbody, states_)
            out.absorb_exits(f)      # finally body's own return / raise override
            return f.normal
        out.normal |= through(pending.normal)
        for (s, ln) in pending.returns:
            for ns in through({s}):
                out.returns.add((ns, ln))
        for (s, exc, ln) in pending.raises:
            for ns in through({s}):
                out.raises.add((ns, exc, ln))
        out.breaks |= through(pending.breaks) if pending.breaks else set()
        out.continues |= through(pending.continues) if pending.continues else set()
        return out

    def _on_catch(self, handler, state):
        return state


def default_raises(st, state):
    """a statement may raise 'some Exception' if it contains a call that is not one of a
    few total builtins; explicit ``raise`` is handled by the solver itself"""
    for n in _walk_no_nested(st):
        if isinstance(n, ast.Call):
            d = dotted(n.func)
            if d in NO_RAISE_BUILTINS:
                continue
            return [(state, '*')]
    return []


def _walk_no_nested(node):
    stack = [node]
    while stack:
        n = stack.pop()
        yield n
        for c in ast.iter_child_nodes(n):
            if isinstance(c, (ast.FunctionDef, ast.AsyncFunctionDef, ast.Lambda, ast.ClassDef)):
                continue
            stack.append(c)
