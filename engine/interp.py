"""E6 (part 2) -- abstract interpreter for the doc-building code.

Evaluates a Python function of the package *abstractly* over the doc-shape domain
(``docterm``): documents become terms, user values and configuration become symbols, unknown
tests split the path (every outcome is explored, each path records the facts it assumed;
repeated tests of one condition agree through a per-path memo).  List lengths are abstracted
to the small scopes a *scenario* supplies (0, 1, 2, 3 elements) -- the uniformity of the loop
bodies in the loop index (only ``last = idx == len(xs) - 1`` may look at it) is what makes
those scopes representative, and is checked separately.

Nothing of the repository is imported or run: the interpreter walks the ast of the current
source and implements the few dozen Python constructs the doc-building functions use;
anything else raises ``Undecided`` (reported as ANALYSIS-ERROR, never as a violation).
"""
import ast

from . import docterm as D
from .astutil import src, dotted
from .loader import AnalysisError


class Undecided(AnalysisError):
    pass


class LoopLimit(Undecided):
    """a while loop ran past its iteration bound: on symbolic input nothing follows (the abstraction may not see the exit); on fully
    concrete input it is evidence that the loop does not terminate for that input"""


class PathLimit(AnalysisError):
    pass


# ------------------------------------------------------------------------------- values
class V:
    pass


class Const(V):
    __slots__ = ('v',)

    def __init__(self, v):
        self.v = v

    def __repr__(self):
        return 'Const(%r)' % (self.v,)


NONE = Const(None)
TRUE = Const(True)
FALSE = Const(False)


class Sym(V):
    """unknown scalar / object; ``typ`` is a hint ('int', 'bool', 'str', ...)"""
    __slots__ = ('prov', 'typ')

    def __init__(self, prov, typ=None):
        self.prov = prov
        self.typ = typ

    def __repr__(self):
        return 'Sym(%s)' % self.prov


class SymStr(V):
    """symbolic string; ``ops`` records the str.replace steps applied to an opaque base (in order)"""
    __slots__ = ('prov', 'nonempty', 'ops', 'base')

    def __init__(self, prov, nonempty=None, ops=(), base=None):
        self.prov = prov
        self.nonempty = nonempty
        self.ops = tuple(ops)
        self.base = base if base is not None else prov

    def __repr__(self):
        return 'SymStr(%s)' % self.prov


class ListV(V):
    __slots__ = ('items', 'lazy')

    def __init__(self, items, lazy=False):
        self.items = list(items)
        self.lazy = lazy        # the result of zip / map / filter / enumerate / reversed: an iterator in Python (next() consumes it)

    def __repr__(self):
        return 'ListV(%r)' % (self.items,)


class NamedListV(ListV):
    """a list a model hands out under a name of its own (the stream a recorded pipeline call returns): it can be iterated like any
    list; in messages and comparisons of provenance it is its name"""
    __slots__ = ('label',)

    def __init__(self, label, items, lazy=False):
        ListV.__init__(self, items, lazy)
        self.label = label

    def __repr__(self):
        return 'NamedListV(%s)' % self.label


class TupleV(V):
    __slots__ = ('items',)

    def __init__(self, items):
        self.items = list(items)

    def __repr__(self):
        return 'TupleV(%r)' % (self.items,)


class NamedTupleV(TupleV):
    """an instance of a collections.namedtuple class: a tuple whose items also answer to field names"""
    __slots__ = ('cls',)

    def __init__(self, cls, items):
        TupleV.__init__(self, items)
        self.cls = cls

    def __repr__(self):
        return '%s(%s)' % (self.cls.tname, ', '.join('%s=%s' % (f, _prov(x)) for f, x in zip(self.cls.fields, self.items)))


class NTClassV(V):
    """the class object made by collections.namedtuple(name, fields[, defaults=...])"""
    __slots__ = ('tname', 'fields', 'defaults')

    def __init__(self, tname, fields, defaults=()):
        self.tname, self.fields, self.defaults = tname, list(fields), list(defaults)

    def __repr__(self):
        return '<namedtuple class %s>' % self.tname


class DictV(V):
    __slots__ = ('items',)

    def __init__(self, items=None):
        self.items = list(items or [])      # [(keyV, valueV)] in insertion order

    @staticmethod
    def _same_key(k, key):
        if isinstance(k, Const) and isinstance(key, Const) and k.v == key.v:
            return True
        if type(k).__name__ == 'AnnotV' and type(key).__name__ == 'AnnotV' and isinstance(k.label, str) and k.label == key.label:
            return True     # enum members are singletons
        if type(k).__name__ in ('Prim', 'TypeV') and type(key) is type(k):
            return k.name == key.name
        if type(k).__name__ == 'FuncV' and type(key) is type(k):
            return k.fn is key.fn and k.node is key.node
        if type(k).__name__ == 'TupleV' and type(key).__name__ == 'TupleV' and len(k.items) == len(key.items):
            return all(DictV._same_key(a, b) for a, b in zip(k.items, key.items))
        return k is key

    def get(self, key):
        for k, v in self.items:
            if self._same_key(k, key):
                return v
        return None

    def set(self, key, value):
        for i, (k, v) in enumerate(self.items):
            if self._same_key(k, key):
                self.items[i] = (k, value)
                return
        self.items.append((key, value))

    def __repr__(self):
        return 'DictV(%r)' % (self.items,)


class ChainMapV(DictV):
    """collections.ChainMap over known mappings: reads see the first mapping that has the key (keys in the order ChainMap iterates:
    the last mapping's keys first), writes go to the first mapping"""
    __slots__ = ('maps',)

    def __init__(self, maps):
        self.maps = list(maps) or [DictV([])]

    @property
    def items(self):
        order = []
        for mp in reversed(self.maps):
            for k, _ in mp.items:
                if not any(DictV._same_key(k, k2) for k2 in order):
                    order.append(k)
        out = []
        for k in order:
            for mp in self.maps:
                v = mp.get(k)
                if v is not None:
                    out.append((k, v))
                    break
        return out

    def set(self, key, value):
        self.maps[0].set(key, value)

    def __repr__(self):
        return 'ChainMapV(%d maps)' % len(self.maps)


class SetV(V):
    __slots__ = ('items',)

    def __init__(self, items=None):
        # a set holds equal elements once (constants by value, types / functions / enum members by identity of what they name)
        self.items = []
        for x in (items or []):
            if not any(DictV._same_key(y, x) for y in self.items):
                self.items.append(x)

    def __repr__(self):
        return 'SetV(%r)' % (self.items,)


class ObjV(V):
    """instance of a class of the package, built by interpreting its __init__"""
    __slots__ = ('cls', 'attrs')

    def __init__(self, cls):
        self.cls = cls          # ClassInfo
        self.attrs = {}

    def __repr__(self):
        return 'ObjV(%s)' % self.cls.name


class ExcV(V):
    """an exception object caught by a handler (concrete mode): keeps what was raised"""
    __slots__ = ('what',)

    def __init__(self, what):
        self.what = what

    def __repr__(self):
        return 'ExcV(%s)' % self.what


class OpaqueV(V):
    """object(): a value that is only ever compared by identity (sentinels)"""
    __slots__ = ()

    def __repr__(self):
        return 'object#%x' % (id(self) & 0xffff)


class IterV(V):
    """an iterator over known items: consumed by next() and by loops"""
    __slots__ = ('items', 'pos')

    def __init__(self, items):
        self.items = list(items)
        self.pos = 0

    def __repr__(self):
        return 'IterV(%d/%d)' % (self.pos, len(self.items))


class StringIOV(V):
    """io.StringIO: an in-memory text stream; what was written is known as long as only constant text is written"""
    __slots__ = ('parts', 'pos_at_end')

    def __init__(self, initial=None):
        self.parts = [initial] if initial is not None else []
        self.pos_at_end = initial is None

    def __repr__(self):
        return 'StringIOV(%d parts)' % len(self.parts)


class CycleV(V):
    """itertools.cycle over known items: endless; consumed position by position by zip / islice / next"""
    __slots__ = ('items', 'pos')

    def __init__(self, items):
        self.items = list(items)
        self.pos = 0

    def take(self, n):
        out = [self.items[(self.pos + i) % len(self.items)] for i in range(n)]
        self.pos += n
        return out

    def __repr__(self):
        return 'cycle(%s)' % ','.join(_prov(x) for x in self.items)


class PartialV(V):
    """functools.partial(func, *args, **kwargs)"""
    __slots__ = ('func', 'args', 'kwargs')

    def __init__(self, func, args, kwargs):
        self.func, self.args, self.kwargs = func, args, kwargs

    def __repr__(self):
        return 'partial(%s)' % ','.join([_prov(self.func)] + [_prov(a) for a in self.args])


class FuncV(V):
    __slots__ = ('fn', 'env', 'node')

    def __init__(self, fn, env=None, node=None):
        self.fn = fn        # FunctionInfo (or None for lambda)
        self.env = env      # defining Frame for closures
        self.node = node    # ast.Lambda for lambdas

    def __repr__(self):
        return 'FuncV(%s)' % (self.fn.qualname if self.fn else 'lambda')


class Prim(V):
    __slots__ = ('name',)

    def __init__(self, name):
        self.name = name

    def __repr__(self):
        return 'Prim(%s)' % self.name


class TypeV(V):
    """a class object.  ``base`` names the built-in base for a scenario subclass."""
    __slots__ = ('name', 'base')

    def __init__(self, name, base=None):
        self.name = name
        self.base = base or name

    def __repr__(self):
        return 'TypeV(%s)' % self.name


class ValueV(V):
    """the user value being printed: type scenario + small-scope contents"""
    __slots__ = ('prov', 'type', 'elems', 'extra')

    def __init__(self, prov, type_, elems=None, extra=None):
        self.prov = prov
        self.type = type_           # TypeV
        self.elems = elems          # list of V or None (not a container / unknown)
        self.extra = extra or {}

    def __repr__(self):
        return 'ValueV(%s:%s)' % (self.prov, self.type.name)


class CtxV(V):
    __slots__ = ('prov', 'nested', 'strategy', 'attrs')

    def __init__(self, prov='ctx', nested=0, strategy=None, attrs=None):
        self.prov = prov
        self.nested = nested
        self.strategy = strategy if strategy is not None else Sym(prov + '.multiline_strategy')
        self.attrs = attrs or {}

    def describe(self):
        st = self.strategy.v if isinstance(self.strategy, Const) else 'inherit'
        return '%s+%d:%s' % (self.prov, self.nested, st)

    def __repr__(self):
        return 'CtxV(%s)' % self.describe()


class DocV(V):
    __slots__ = ('t',)

    def __init__(self, t):
        self.t = t

    def __repr__(self):
        return 'DocV(%s)' % D.show(self.t)


class AnnotV(V):
    __slots__ = ('label',)

    def __init__(self, label):
        self.label = label

    def __repr__(self):
        return 'AnnotV(%r)' % (self.label,)


class BoundV(V):
    __slots__ = ('obj', 'name')

    def __init__(self, obj, name):
        self.obj = obj
        self.name = name


class _Return(Exception):
    def __init__(self, value):
        self.value = value


class _Break(Exception):
    pass


class _Continue(Exception):
    pass


class Raised(Exception):
    def __init__(self, what, lineno):
        self.what = what
        self.lineno = lineno


_PURE_STR_METHODS = ({n_ for n_ in dir(str) if not n_.startswith('_')} | {'decode', 'hex', 'translate'}) - {'format', 'format_map', 'join', 'maketrans'}


class _NotPlain(Exception):
    pass


def _plain(v):
    """the Python value of an interpreter value made of constants only (lists / tuples / dicts / sets of constants)"""
    if isinstance(v, Const):
        return v.v
    if isinstance(v, TupleV):
        return tuple(_plain(x) for x in v.items)
    if isinstance(v, ListV) and not getattr(v, 'lazy', False):
        return [_plain(x) for x in v.items]
    if isinstance(v, DictV):
        return {_plain(k): _plain(x) for k, x in v.items}
    if isinstance(v, SetV):
        return {_plain(x) for x in v.items}
    raise _NotPlain()


def _wrap_py(obj):
    if isinstance(obj, dict):
        return DictV([(_wrap_py(k), _wrap_py(v)) for k, v in obj.items()])
    if isinstance(obj, (set, frozenset)):
        return SetV([_wrap_py(x) for x in sorted(obj, key=repr)])
    """a plain Python result of a pure standard-library call on constants, as an interpreter value"""
    if isinstance(obj, list):
        return ListV([_wrap_py(x) for x in obj])
    if isinstance(obj, tuple):
        return TupleV([_wrap_py(x) for x in obj])
    return Const(obj)


def _matching_handler(handlers, exc):
    """the first handler whose class catches the raised exception; when either class is not a builtin exception the
    first handler is taken (over-approximation kept from before)"""
    import builtins
    import re as _re
    m = _re.match(r'(\w+)', exc.what or '')
    raised = getattr(builtins, m.group(1), None) if m else None
    for h in handlers:
        if h.type is None:
            return h
        names = [src(e) for e in (h.type.elts if isinstance(h.type, ast.Tuple) else [h.type])]
        classes = [getattr(builtins, n_, None) for n_ in names]
        known_raised = isinstance(raised, type) and issubclass(raised, BaseException)
        known_classes = all(isinstance(c, type) and issubclass(c, BaseException) for c in classes)
        if known_raised and known_classes:
            if any(issubclass(raised, c) for c in classes):
                return h
            continue
        if not known_raised and known_classes and any(c in (Exception, BaseException) for c in classes):
            return h        # an exception of a class outside the builtins: assumed to derive from Exception
        # a class of the raised exception or of the handler that is not a builtin: whether it matches is not known
        raise Undecided('whether "except %s" catches %s' % (', '.join(names), (exc.what or '')[:40]))
    return None


class Frame:
    interp_globals = None      # set per interpreter (module-level rebinding through ``global``)

    def __init__(self, fn, module, parent=None):
        self.fn = fn
        self.module = module
        self.parent = parent
        self.vars = {}
        self.nonlocals = set()

    def lookup(self, name):
        f = self
        while f is not None:
            if name in f.vars:
                return f.vars[name]
            f = f.parent
        return None

    def assign(self, name, value):
        if name in getattr(self, 'globals_declared', ()):
            self.interp_globals[(self.module.name, name)] = value
            return
        if name in self.nonlocals:
            f = self.parent
            while f is not None:
                if name in f.vars:
                    f.vars[name] = value
                    return
                f = f.parent
        self.vars[name] = value


class PathResult:
    def __init__(self, value, facts, raised=None):
        self.value = value
        self.facts = facts        # list of (key text, bool)
        self.raised = raised

    def fact_text(self):
        return ' & '.join(('' if v else 'not ') + k for k, v in self.facts) or 'always'

    def assumed(self, needle, value=None):
        for k, v in self.facts:
            if needle in k and (value is None or v == value):
                return True
        return False


DOC_CLASSES = {'Concat', 'Nest', 'Group', 'AlwaysBreak', 'Annotated', 'FlatChoice', 'Fill', 'Contextual',
               'Nil', 'HardLine', 'Doc'}
BUILTIN_TYPES = {'list', 'tuple', 'set', 'frozenset', 'dict', 'str', 'bytes', 'int', 'float', 'bool',
                 'OrderedDict', 'object', 'type'}


def _singleton_like(v):
    """a value for which ``is`` and ``==`` coincide: None / True / False / Ellipsis, a type, a function, a module-level sentinel
    (MISSING, NOTHING, _UNSET: an upper-case name, possibly dotted)"""
    if isinstance(v, Const):
        return v.v is None or isinstance(v.v, bool) or v.v is Ellipsis or isinstance(v.v, type)
    if isinstance(v, (TypeV, Prim, FuncV, OpaqueV, AnnotV, NTClassV)):
        return True
    p = _prov(v)
    last = p.split('.')[-1]
    return bool(last) and last.replace('_', '').isalnum() and last.upper() == last and not last.isdigit() and any(c.isalpha() for c in last)


_BUILTIN_TYPE_NAMES = frozenset(('str', 'bytes', 'int', 'float', 'bool', 'complex', 'list', 'tuple', 'dict', 'set', 'frozenset', 'type', 'object', 'bytearray'))


class Interp:
    def __init__(self, repo, prims=None, max_paths=512, max_depth=40):
        self.repo = repo
        self.prims = dict(prims or {})    # name -> callable(interp, args, kwargs, node) -> V
        self.max_paths = max_paths
        self.max_depth = max_depth
        self._const_cache = {}
        self.foreign_names = set()
        self.globals_store = {}
        Frame.interp_globals = self.globals_store
        self._defaults_cache = {}
        self.plan, self.trail, self.memo, self.refine = [], [], {}, {}
        self.paths_run = 0
        self.depth = 0
        self._import_time = 0

    # ---------------------------------------------------------------- path exploration
    def explore(self, fn, args, kwargs=None, closure=None):
        """run ``fn`` on abstract arguments along every path; returns [PathResult]"""
        results = []
        plan = []
        # every path starts from the same arguments: what one path reads from a one-shot argument (an iterator, a generator's list) is
        # there again for the next path
        one_shot = [(a_, list(a_.items), getattr(a_, 'pos', None)) for a_ in list(args) + list((kwargs or {}).values())
                    if isinstance(a_, IterV) or (isinstance(a_, ListV) and getattr(a_, 'lazy', False))]
        while True:
            for a_, items_, pos_ in one_shot:
                a_.items[:] = items_
                if pos_ is not None:
                    a_.pos = pos_
            self.plan = list(plan)
            self.trail = []
            self.memo = {}
            self.refine = {}
            self.paths_run += 1
            if self.paths_run > self.max_paths:
                raise PathLimit('more than %d paths while interpreting %s' % (self.max_paths, fn.key))
            try:
                v = self.call_function(FuncV(fn, closure), list(args), dict(kwargs or {}), None)
                results.append(PathResult(v, list(self.trail)))
            except Raised as r:
                results.append(PathResult(None, list(self.trail), raised=r))
            # next plan: flip the last True decision
            t = [val for _, val in self.trail]
            while t and t[-1] is False:
                t.pop()
            if not t:
                break
            t[-1] = False
            plan = t
        return results

    def decide(self, key):
        if key in self.memo:
            return self.memo[key]
        # the same question asked in other words: truthy(P) for a number P is "P != 0"
        import re as _re
        m_ = _re.fullmatch(r'truthy\((.*)\)', key)
        if m_:
            for alt in ('0 == %s' % m_.group(1), '%s == 0' % m_.group(1)):
                if alt in self.memo:
                    self.memo[key] = not self.memo[alt]
                    return self.memo[key]
        m_ = _re.fullmatch(r'0 == (.*)', key) or _re.fullmatch(r'(.*) == 0', key)
        if m_ and ('truthy(%s)' % m_.group(1)) in self.memo:
            self.memo[key] = not self.memo['truthy(%s)' % m_.group(1)]
            return self.memo[key]
        i = len(self.trail)
        v = self.plan[i] if i < len(self.plan) else True
        self.trail.append((key, v))
        self.memo[key] = v
        return v

    def assume(self, key, value):
        """record a fact without branching (scenario knowledge)"""
        self.memo[key] = value

    # ---------------------------------------------------------------- functions
    def call_function(self, f, args, kwargs, node):
        if isinstance(f, Prim):
            return self.call_prim(f.name, args, kwargs, node)
        if isinstance(f, BoundV):
            return self.call_method(f.obj, f.name, args, kwargs, node)
        if isinstance(f, PartialV):
            kw = dict(f.kwargs)
            kw.update(kwargs)
            return self.call_function(f.func, list(f.args) + list(args), kw, node)
        if isinstance(f, TypeV):
            return self.construct(f, args, kwargs, node)
        if isinstance(f, NTClassV):
            return self._make_namedtuple(f, args, kwargs, node)
        if isinstance(f, Sym):
            return Sym('%s(%s)' % (f.prov, ','.join(_prov(a) for a in args)))
        if not isinstance(f, FuncV):
            raise Undecided('call of non-function %r at line %s' % (f, getattr(node, 'lineno', '?')))
        if f.node is not None:      # lambda
            fr = Frame(None, f.env.module if f.env else None, f.env)
            la = f.node.args
            pos_ = [x.arg for x in la.posonlyargs + la.args]
            if len(args) > len(pos_) and la.vararg is None:
                raise Raised('TypeError: <lambda>() takes %d positional arguments but %d were given' % (len(pos_), len(args)), getattr(node, 'lineno', 0))
            for name_, v in zip(pos_, args):
                fr.vars[name_] = v
            if la.vararg is not None:
                fr.vars[la.vararg.arg] = TupleV(list(args[len(pos_):]))
            extra_ = {}
            for k_, v in (kwargs or {}).items():
                if k_ in pos_ or k_ in [x.arg for x in la.kwonlyargs]:
                    fr.vars[k_] = v
                elif la.kwarg is not None:
                    extra_[k_] = v
                else:
                    raise Raised('TypeError: <lambda>() got an unexpected keyword argument %r' % k_, getattr(node, 'lineno', 0))
            if la.kwarg is not None:
                fr.vars[la.kwarg.arg] = DictV([(Const(k_), v) for k_, v in extra_.items()])
            dflt_ = getattr(f.env, 'lambda_defaults', {}) if f.env is not None else {}
            for name_ in pos_[len(args):]:
                if name_ not in fr.vars and name_ not in dflt_ and getattr(self, 'concrete_context', False):
                    raise Raised('TypeError: <lambda>() missing required argument %r' % name_, getattr(node, 'lineno', 0))
            return self.eval(f.node.body, fr)
        fn = f.fn
        if fn.name in self.prims and f.env is None:
            return self.call_prim(fn.name, args, kwargs, node)
        cc = getattr(self, 'call_counts', None)
        if cc is not None:
            cc[fn.key] = cc.get(fn.key, 0) + 1
        if _is_generator(fn.node) and (fn.name in getattr(self, 'eager_generators', ()) or
                                       (getattr(self, 'concrete_context', False) and not hasattr(self, 'p_' + fn.name))):
            # a generator whose inputs the consumer does not touch: running it to completion first is equivalent
            fr = Frame(fn, fn.module, f.env)
            self.bind(fn, fr, args, kwargs)
            fr.yields = []
            try:
                self.exec_block(fn.node.body, fr)
            except _Return:
                pass
            return ListV(fr.yields, lazy=True)
        if _is_generator(fn.node):
            if hasattr(self, 'p_' + fn.name):
                return getattr(self, 'p_' + fn.name)(args, [kwargs.get(k) for k in ()] and kwargs or kwargs, node)
            raise Undecided('generator function %s has no abstract model' % fn.key)
        self.depth += 1
        if self.depth > self.max_depth:
            self.depth -= 1
            raise Undecided('inlining depth exceeded at %s' % fn.key)
        try:
            fr = Frame(fn, fn.module, f.env)
            self.bind(fn, fr, args, kwargs)
            try:
                self.exec_block(fn.node.body, fr)
            except _Return as r:
                return r.value
            return NONE
        finally:
            self.depth -= 1

    def bind(self, fn, fr, args, kwargs):
        a = fn.node.args
        pos = [x.arg for x in a.posonlyargs + a.args]
        defaults = dict(zip(pos[len(pos) - len(a.defaults):], a.defaults))
        for k, d in zip(a.kwonlyargs, a.kw_defaults):
            if d is not None:
                defaults[k.arg] = d
        names = pos + [k.arg for k in a.kwonlyargs]
        given = {}
        extra = []
        for i, v in enumerate(args):
            if i < len(pos):
                given[pos[i]] = v
            else:
                extra.append(v)
        for k, v in kwargs.items():
            if k in names:
                given[k] = v
            elif a.kwarg is None:
                raise Raised('TypeError: unexpected keyword argument %s for %s' % (k, fn.key), fn.node.lineno)
        if a.vararg:
            fr.vars[a.vararg.arg] = TupleV(extra)
        elif extra:
            raise Raised('TypeError: too many positional arguments for %s' % fn.key, fn.node.lineno)
        if a.kwarg:
            rest = [(Const(k), v) for k, v in kwargs.items() if k not in names]
            if getattr(self, 'concrete_context', False):
                fr.vars[a.kwarg.arg] = DictV(rest)
            else:
                fr.vars[a.kwarg.arg] = Sym('**kwargs') if not rest else TupleV([TupleV([k, v]) for k, v in rest])
        for n in names:
            if n in given:
                fr.vars[n] = given[n]
            elif n in defaults:
                # default values are evaluated once, at definition time (a mutable default is shared)
                ck = (fn.key, n)
                if ck not in self._defaults_cache:
                    self._import_time += 1
                    try:
                        self._defaults_cache[ck] = self.eval(defaults[n], Frame(fn, fn.module, None))
                    finally:
                        self._import_time -= 1
                fr.vars[n] = self._defaults_cache[ck]
            elif '**' in kwargs or '**pairs' in kwargs:
                raise Undecided('missing argument %s for %s' % (n, fn.key))
            else:
                raise Raised('TypeError: missing argument %s for %s' % (n, fn.key), fn.node.lineno)

    # ---------------------------------------------------------------- statements
    def exec_block(self, stmts, fr):
        for st in stmts:
            self.exec(st, fr)

    def exec(self, st, fr):
        if isinstance(st, ast.Expr):
            if isinstance(st.value, ast.Constant):
                return
            self.eval(st.value, fr)
        elif isinstance(st, ast.Assign):
            v = self.eval(st.value, fr)
            for t in st.targets:
                self.assign(t, v, fr)
        elif isinstance(st, ast.AugAssign):
            cur = self.eval(_load(st.target), fr)
            rhs_ = self.eval(st.value, fr)
            if isinstance(st.op, ast.Add) and isinstance(cur, ListV) and not getattr(cur, 'lazy', False) and getattr(self, 'concrete_context', False):
                # list += iterable extends the list object in place (aliases see it)
                cur.items.extend(self.iterate(rhs_, st.value))
                return
            if isinstance(cur, SetV) and isinstance(rhs_, SetV) and isinstance(st.op, (ast.BitOr, ast.BitAnd, ast.Sub, ast.BitXor)):
                cur.items[:] = self.binop(type(st.op), cur, rhs_, st).items
                return
            v = self.binop(type(st.op), cur, rhs_, st)
            self.assign(st.target, v, fr)
        elif isinstance(st, ast.If):
            if self.truth(self.eval(st.test, fr), st.test):
                self.exec_block(st.body, fr)
            else:
                self.exec_block(st.orelse, fr)
        elif isinstance(st, ast.For):
            src_ = self.eval(st.iter, fr)
            if isinstance(src_, IterV):
                # an iterator is consumed item by item: what a ``break`` leaves is still there for a later next() / loop
                def items_():
                    while src_.pos < len(src_.items):
                        src_.pos += 1
                        yield src_.items[src_.pos - 1]
            elif isinstance(src_, ListV) and getattr(src_, 'lazy', False):
                def items_():
                    while src_.items:
                        yield src_.items.pop(0)
            elif isinstance(src_, ListV):
                # a list is iterated live: elements appended by the body are visited too
                def items_():
                    i_ = 0
                    while i_ < len(src_.items):
                        i_ += 1
                        if i_ > 100000:
                            raise Undecided('for loop over a list that keeps growing (line %d)' % st.lineno)
                        yield src_.items[i_ - 1]
            else:
                snapshot_ = self.iterate(src_, st.iter)

                def items_():
                    return iter(snapshot_)
            broke = False
            for item in items_():
                self.assign(st.target, item, fr)
                try:
                    self.exec_block(st.body, fr)
                except _Continue:
                    continue
                except _Break:
                    broke = True
                    break
            if not broke:
                self.exec_block(st.orelse, fr)
        elif isinstance(st, ast.While):
            n = 0
            while self.truth(self.eval(st.test, fr), st.test):
                n += 1
                if n > getattr(self, 'max_while', 64):
                    raise LoopLimit('while loop still running after %d iterations (line %d)' % (n - 1, st.lineno))
                try:
                    self.exec_block(st.body, fr)
                except _Continue:
                    continue
                except _Break:
                    break
            else:
                self.exec_block(st.orelse, fr)
        elif isinstance(st, ast.Return):
            raise _Return(self.eval(st.value, fr) if st.value is not None else NONE)
        elif isinstance(st, ast.Continue):
            raise _Continue()
        elif isinstance(st, ast.Break):
            raise _Break()
        elif isinstance(st, ast.Pass):
            return
        elif isinstance(st, (ast.FunctionDef,)):
            qn = (fr.fn.qualname + '.<locals>.' + st.name) if fr.fn else st.name
            fi = fr.module.funcs.get(qn) if fr.module else None
            if fi is None:
                raise Undecided('nested function %s not indexed' % qn)
            fr.vars[st.name] = FuncV(fi, fr)
        elif isinstance(st, ast.Nonlocal):
            fr.nonlocals.update(st.names)
        elif isinstance(st, ast.Assert):
            v = self.eval(st.test, fr)
            if isinstance(v, Const) and not v.v:
                raise Raised('AssertionError: ' + src(st.test), st.lineno)
            # an unknown assertion is assumed to hold (recorded)
            if not isinstance(v, Const):
                self.assume(self.cond_key(v, st.test), True)
        elif isinstance(st, ast.Raise):
            if isinstance(st.exc, ast.Name) and isinstance(fr.lookup(st.exc.id), ExcV):
                raise Raised(fr.lookup(st.exc.id).what, st.lineno)
            if st.exc is None:
                cur_ = getattr(fr, 'handling', None)
                f_ = fr
                while cur_ is None and f_ is not None:
                    cur_ = getattr(f_, 'handling', None)
                    f_ = f_.parent
                raise Raised(cur_ if cur_ is not None else 're-raise', st.lineno)
            what_ = src(st.exc)
            callee_ = st.exc.func if isinstance(st.exc, ast.Call) else st.exc
            if isinstance(st.exc, ast.Call) and isinstance(callee_, ast.Name) and getattr(self, 'concrete_context', False):
                r_ = self.repo.resolve(fr.module, callee_.id) if fr.module is not None and fr.lookup(callee_.id) is None else None
                if (r_ and r_[0] == 'func') or isinstance(fr.lookup(callee_.id), FuncV):
                    # ``raise helper(...)``: the helper builds the exception object
                    ev_ = self.eval(st.exc, fr)
                    if isinstance(ev_, ExcV):
                        raise Raised(ev_.what, st.lineno)
                    raise Undecided('raise of %s (line %d)' % (_prov(ev_), st.lineno))
            if isinstance(callee_, ast.Name):
                cv_ = fr.lookup(callee_.id)
                if isinstance(cv_, (TypeV, Prim)) and cv_.name != callee_.id:
                    # ``raise exc_class(...)`` through a variable: the class that is raised is the value, not the spelling
                    what_ = cv_.name + what_[len(callee_.id):]
                elif isinstance(cv_, ExcV):
                    what_ = cv_.what
            raise Raised(what_, st.lineno)
        elif isinstance(st, ast.Try):
            # the finally block runs on every way out: normal completion, return / break / continue, an exception that is
            # handled, one that is not, and one raised by a handler (Undecided / PathLimit abort the analysis and skip it)
            try:
                try:
                    self.exec_block(st.body, fr)
                except Raised as exc_:
                    h = _matching_handler(st.handlers, exc_)
                    if h is None:
                        raise
                    if h.name:
                        fr.vars[h.name] = ExcV(exc_.what) if getattr(self, 'concrete_context', False) else Sym('exc')
                    saved_h_ = getattr(fr, 'handling', None)
                    fr.handling = exc_.what
                    try:
                        self.exec_block(h.body, fr)
                    finally:
                        fr.handling = saved_h_
                else:
                    self.exec_block(st.orelse, fr)
            except (Raised, _Return, _Break, _Continue):
                self.exec_block(st.finalbody, fr)
                raise
            self.exec_block(st.finalbody, fr)
        elif isinstance(st, ast.ImportFrom) and fr.module is not None:
            mod = fr.module._abs_module(st.level, st.module)
            target = self.repo.modules.get(mod)
            for al in st.names:
                if target is not None:
                    fr.vars[al.asname or al.name] = self.global_name(target, al.name, st)
                else:
                    fr.vars[al.asname or al.name] = Prim(al.name)
        elif isinstance(st, ast.Delete):
            for t in st.targets:
                if isinstance(t, ast.Subscript):
                    obj = self.eval(t.value, fr)
                    if isinstance(t.slice, ast.Slice) and isinstance(obj, ListV) and t.slice.step is None:
                        lo = self.eval(t.slice.lower, fr) if t.slice.lower is not None else NONE
                        hi = self.eval(t.slice.upper, fr) if t.slice.upper is not None else NONE
                        if not (isinstance(lo, Const) and isinstance(hi, Const)):
                            raise Undecided('del with symbolic slice (line %d)' % st.lineno)
                        del obj.items[lo.v:hi.v]
                        continue
                    idx = self.eval(t.slice, fr)
                    if isinstance(obj, ListV) and isinstance(idx, Const) and isinstance(idx.v, int):
                        try:
                            del obj.items[idx.v]
                        except IndexError:
                            raise Raised('IndexError: list assignment index out of range', st.lineno)
                        continue
                    if isinstance(obj, DictV):
                        for i_, (kk, vv) in enumerate(obj.items):
                            if DictV._same_key(kk, idx):
                                del obj.items[i_]
                                break
                        else:
                            raise Raised('KeyError: %s' % _prov(idx), st.lineno)
                        continue
                    raise Undecided('del on %r (line %d)' % (obj, st.lineno))
                elif isinstance(t, ast.Name):
                    fr.vars.pop(t.id, None)
                else:
                    raise Undecided('del target %s (line %d)' % (type(t).__name__, st.lineno))
        elif isinstance(st, ast.With):
            entered = []
            for item in st.items:
                mgr = self.eval(item.context_expr, fr)
                if isinstance(mgr, ObjV) and self.find_method(mgr.cls, '__enter__') is not None:
                    val = self.call_method(mgr, '__enter__', [], {}, st)
                elif isinstance(mgr, (Sym, Prim, OpaqueV)) and any(w_ in _prov(mgr) for w_ in ('Lock', 'lock', 'catch_warnings')):
                    val = mgr      # a lock / warnings filter of the standard library: no effect on the values computed
                else:
                    raise Undecided('context manager %s (line %d)' % (_prov(mgr), st.lineno))
                entered.append(mgr)
                if item.optional_vars is not None:
                    self.assign(item.optional_vars, val, fr)
            try:
                self.exec_block(st.body, fr)
            except Raised as exc_:
                swallowed = False
                for mgr in reversed(entered):
                    if isinstance(mgr, ObjV):
                        r_ = self.call_method(mgr, '__exit__', [Sym('exc_type'), ExcV(exc_.what), Sym('traceback')], {}, st)
                        if self.truth(r_, st):
                            swallowed = True
                            break
                if not swallowed:
                    raise
            except (_Return, _Break, _Continue):
                for mgr in reversed(entered):
                    if isinstance(mgr, ObjV):
                        self.call_method(mgr, '__exit__', [NONE, NONE, NONE], {}, st)
                raise
            else:
                for mgr in reversed(entered):
                    if isinstance(mgr, ObjV):
                        self.call_method(mgr, '__exit__', [NONE, NONE, NONE], {}, st)
        elif isinstance(st, ast.Global):
            fr.globals_declared = getattr(fr, 'globals_declared', set()) | set(st.names)
        elif isinstance(st, (ast.Import, ast.ImportFrom)):
            return
        else:
            raise Undecided('statement %s at line %d' % (type(st).__name__, st.lineno))

    def assign(self, target, v, fr):
        if isinstance(target, ast.Name):
            fr.assign(target.id, v)
        elif isinstance(target, (ast.Tuple, ast.List)):
            items = self.iterate(v, target)
            stars = [i_ for i_, t_ in enumerate(target.elts) if isinstance(t_, ast.Starred)]
            if len(stars) == 1:
                k_ = stars[0]
                after_ = len(target.elts) - k_ - 1
                if len(items) < len(target.elts) - 1:
                    raise Raised('ValueError: not enough values to unpack', target.lineno)
                for t, i in zip(target.elts[:k_], items[:k_]):
                    self.assign(t, i, fr)
                self.assign(target.elts[k_].value, ListV(items[k_:len(items) - after_]), fr)
                for t, i in zip(target.elts[k_ + 1:], items[len(items) - after_:] if after_ else []):
                    self.assign(t, i, fr)
                return
            if len(items) != len(target.elts):
                if isinstance(v, (ListV, TupleV, Const)) and not getattr(v, 'lazy', False):
                    raise Raised('ValueError: %s values to unpack (expected %d, got %d)' % (
                        'too many' if len(items) > len(target.elts) else 'not enough', len(target.elts), len(items)), target.lineno)
                raise Undecided('unpacking %d values into %d targets (line %d)' % (
                    len(items), len(target.elts), target.lineno))
            for t, i in zip(target.elts, items):
                self.assign(t, i, fr)
        elif isinstance(target, ast.Subscript) and isinstance(target.slice, ast.Slice):
            obj = self.eval(target.value, fr)
            lo = self.eval(target.slice.lower, fr) if target.slice.lower is not None else NONE
            hi = self.eval(target.slice.upper, fr) if target.slice.upper is not None else NONE
            st = self.eval(target.slice.step, fr) if target.slice.step is not None else NONE
            if not (isinstance(obj, ListV) and not getattr(obj, 'lazy', False) and isinstance(lo, Const) and isinstance(hi, Const)
                    and isinstance(st, Const)):
                raise Undecided('slice assignment on %r (line %d)' % (obj, target.lineno))
            new_items = self.iterate(v, target)
            try:
                obj.items[lo.v:hi.v:st.v] = new_items
            except (ValueError, TypeError) as e:
                raise Raised('%s: %s' % (type(e).__name__, e), target.lineno)
        elif isinstance(target, ast.Subscript):
            obj = self.eval(target.value, fr)
            idx = self.eval(target.slice, fr)
            if isinstance(obj, ListV) and isinstance(idx, Const) and isinstance(idx.v, int):
                if not -len(obj.items) <= idx.v < len(obj.items):
                    raise Raised('IndexError: list assignment index out of range', target.lineno)
                obj.items[idx.v] = v
            elif isinstance(obj, DictV):
                obj.set(idx, v)
            else:
                raise Undecided('subscript store on %r (line %d)' % (obj, target.lineno))
        elif isinstance(target, ast.Attribute):
            obj = self.eval(target.value, fr)
            if isinstance(obj, ObjV):
                obj.attrs[target.attr] = v
            else:
                raise Undecided('attribute store on %r (line %d)' % (obj, target.lineno))
        else:
            raise Undecided('assignment target %s' % type(target).__name__)

    # ---------------------------------------------------------------- expressions
    def eval(self, n, fr):
        m = getattr(self, 'e_' + type(n).__name__, None)
        if m is None:
            raise Undecided('expression %s at line %s' % (type(n).__name__, getattr(n, 'lineno', '?')))
        return m(n, fr)

    def e_Constant(self, n, fr):
        return Const(n.value)

    def e_YieldFrom(self, n, fr):
        f = fr
        while f is not None and not hasattr(f, 'yields'):
            f = f.parent
        if f is None:
            raise Undecided('yield from outside an eagerly run generator (line %s)' % getattr(n, 'lineno', '?'))
        f.yields.extend(self.iterate(self.eval(n.value, fr), n))
        return NONE

    def e_Yield(self, n, fr):
        f = fr
        while f is not None and not hasattr(f, 'yields'):
            f = f.parent
        if f is None:
            raise Undecided('yield outside an eagerly evaluated generator (line %d)' % n.lineno)
        f.yields.append(self.eval(n.value, fr) if n.value is not None else NONE)
        return NONE

    def e_Name(self, n, fr):
        v = fr.lookup(n.id)
        if v is not None:
            return v
        return self.global_name(fr.module, n.id, n)

    def global_name(self, module, name, node=None):
        gk = (module.name if module else None, name)
        if gk in self.globals_store and not self._import_time:
            return self.globals_store[gk]
        if name in self.prims:
            return Prim(name)
        key = (module.name if module else None, name)
        if key in self._const_cache:
            return self._const_cache[key]
        v = self._global(module, name, node)
        if not isinstance(v, (FuncV,)):
            self._const_cache[key] = v
        return v

    def _global(self, module, name, node):
        if module is not None:
            r = self.repo.resolve(module, name)
            if r is not None:
                if r[0] == 'func':
                    return FuncV(r[1])
                if r[0] == 'class':
                    return TypeV(r[1].name)
                if r[0] == 'const':
                    # module-level assignments are evaluated at import time: before any rebinding of globals, and
                    # reads of mutable foreign state (sys.stdout) are snapshots, not call-time reads.  One object per
                    # defining assignment, whichever module imports the name (``doc is NIL`` is an identity test).
                    dk = ('#def', r[1].name if r[1] is not None else None, id(r[2]))
                    if dk in self._const_cache:
                        return self._const_cache[dk]
                    fr = Frame(None, r[1], None)
                    self._import_time += 1
                    try:
                        v_ = self.eval(r[2], fr)
                    finally:
                        self._import_time -= 1
                    if not isinstance(v_, FuncV):
                        self._const_cache[dk] = v_
                    return v_
                if r[0] == 'external':
                    short = r[1].split('.')[-1]
                    if short in BUILTIN_TYPES or short in ('SimpleNamespace', 'ModuleType', 'FunctionType', 'BuiltinFunctionType'):
                        return TypeV(short)
                    self.foreign_names.add(short)
                    return Prim(short)
                if r[0] == 'module':
                    return Sym('module:' + r[1])
        if name in BUILTIN_TYPES:
            return TypeV(name)
        if name in ('True', 'False', 'None'):
            return Const({'True': True, 'False': False, 'None': None}[name])
        if name == 'Ellipsis':
            return Const(Ellipsis)
        return Prim(name)

    def e_Attribute(self, n, fr):
        obj = self.eval(n.value, fr)
        return self.getattr(obj, n.attr, n)

    def getattr(self, obj, attr, n=None):
        if isinstance(obj, TypeV):
            if obj.name == 'Token':
                return AnnotV('Token.' + attr)
            if attr == '__slots__':
                for m_ in self.repo.modules.values():
                    ci = m_.classes.get(obj.name)
                    if ci is not None:
                        for st_ in ci.node.body:
                            if isinstance(st_, ast.Assign) and src(st_.targets[0]) == '__slots__':
                                return TupleV([Const(e.value) for e in ast.walk(st_.value) if isinstance(e, ast.Constant)])
            if attr in ('__qualname__', '__name__') and getattr(self, 'concrete_context', False):
                return Const(obj.name)
            if attr == '__bases__' and obj.name == 'object':
                return TupleV([])
            if attr in ('__mro__', '__bases__') and getattr(self, 'concrete_context', False):
                lin_ = self._type_mro(obj.name)
                if lin_ is not None:
                    if attr == '__mro__':
                        return TupleV([TypeV(x) for x in lin_])
                    return TupleV([TypeV(x) for x in self._type_bases(obj.name)])
            if attr == '__module__' and getattr(self, 'concrete_context', False) and obj.name in _BUILTIN_TYPE_NAMES and obj.base == obj.name:
                return Const('builtins')
            if attr in ('__module__', '__qualname__', '__name__'):
                return SymStr('%s.%s' % (obj.name, attr), nonempty=True)
            if attr in ('__repr__', '__str__', '__format__'):
                return Prim('%s.%s' % (obj.name, attr))
            alt = self._class_level_method(obj, attr)
            if alt is not None:
                return alt
            for m_ in self.repo.modules.values():
                ci_ = m_.classes.get(obj.name)
                if ci_ is not None:
                    try:
                        ca_ = self._class_attr(ci_, attr)
                    except Undecided:
                        ca_ = None
                    if ca_ is not None and ca_[0] == 'value':
                        return ca_[1]
                    break
            return Sym('%s.%s' % (obj.name, attr))
        if isinstance(obj, NamedTupleV):
            if attr in obj.cls.fields:
                return obj.items[obj.cls.fields.index(attr)]
            if attr in ('_replace', '_asdict', 'count', 'index'):
                return BoundV(obj, attr)
            if attr == '_fields':
                return TupleV([Const(x) for x in obj.cls.fields])
            raise Raised('AttributeError: %s.%s' % (obj.cls.tname, attr), getattr(n, 'lineno', 0))
        if isinstance(obj, NTClassV):
            if attr == '_fields':
                return TupleV([Const(x) for x in obj.fields])
            if attr in ('__name__', '__qualname__'):
                return Const(obj.tname)
            if attr == '_make':
                return BoundV(obj, attr)
            return Sym('%s.%s' % (obj.tname, attr))
        if isinstance(obj, CtxV):
            if attr == 'multiline_strategy':
                return obj.strategy
            if attr in ('nested_call', 'use_multiline_strategy', 'assoc', 'get', 'set', '_replace'):
                return BoundV(obj, attr)
            if attr in obj.attrs:
                return obj.attrs[attr]
            if attr == 'depth_left':
                return Sym('%s.depth_left-%d' % (obj.prov, obj.nested), 'int')
            return Sym('%s.%s' % (obj.prov, attr), 'int' if attr in ('indent', 'max_seq_len') else None)
        if isinstance(obj, DocV):
            t = obj.t
            if isinstance(t, D.Ann):
                if attr == 'annotation':
                    return AnnotV(t.label)
                if attr == 'doc':
                    return DocV(t.child)
            if isinstance(t, D.Sub) and self.refine.get(('commented', t.prov)) is True:
                if attr == 'annotation':
                    return AnnotV(('comment', 'comment-of:' + t.prov))
                if attr == 'doc':
                    return DocV(D.Sub(t.prov + '/uncommented', t.ctx, commented=False))
            if isinstance(t, (D.Nest, D.Grp, D.AB)) and attr == 'doc':
                return DocV(t.child)
            if isinstance(t, (D.Cat, D.Fill)) and attr == 'docs':
                return TupleV([DocV(x) if isinstance(x, D.T) else x for x in t.items])
            if isinstance(t, D.FC) and attr in ('when_broken', 'when_flat'):
                return DocV(t.broken if attr == 'when_broken' else t.flat)
            raise Undecided('attribute .%s of document %s' % (attr, D.show(t)))
        if isinstance(obj, ObjV):
            if attr in obj.attrs:
                return obj.attrs[attr]
            meth_ = self.find_method(obj.cls, attr) if obj.cls.module is not None else obj.cls.methods.get(attr)
            if meth_ is not None:
                decos_ = {d_.id for d_ in meth_.node.decorator_list if isinstance(d_, ast.Name)}
                if 'property' in decos_:
                    return self.call_function(FuncV(meth_), [obj], {}, n)
                if 'classmethod' in decos_:
                    return PartialV(FuncV(meth_), [TypeV(obj.cls.name)], {})
                if 'staticmethod' in decos_:
                    return FuncV(meth_)
                return BoundV(obj, attr)
            if ('method:' + attr) in self.prims:
                return BoundV(obj, attr)       # a method of a modelled foreign object
            cattr_ = self._class_attr(obj.cls, attr) if obj.cls.module is not None else None
            if cattr_ is not None:
                kind_, val_ = cattr_
                if kind_ == 'property':
                    return self.call_function(FuncV(val_), [obj], {}, n)
                return val_
            raise Raised('AttributeError: %s.%s' % (obj.cls.name, attr), getattr(n, 'lineno', 0))
        if isinstance(obj, ChainMapV) and attr == 'maps':
            return ListV(list(obj.maps))        # (a copy of the list of mappings; the mappings themselves are the live ones)
        if isinstance(obj, ChainMapV) and attr == 'parents':
            return ChainMapV(list(obj.maps[1:]))
        if isinstance(obj, (DictV, SetV, StringIOV)):
            return BoundV(obj, attr)
        if isinstance(obj, AnnotV):
            if attr == 'value' and isinstance(obj.label, tuple):
                return SymStr(obj.label[1], nonempty=True)
            raise Undecided('attribute .%s of annotation' % attr)
        if isinstance(obj, (ListV, TupleV, SymStr, Const, ValueV, Sym)):
            if isinstance(obj, ValueV) and attr in obj.extra:
                return obj.extra[attr]
            if ('method:' + attr) in self.prims:
                return BoundV(obj, attr)
            if isinstance(obj, Sym) and obj.typ == 'lock':
                return BoundV(obj, attr)
            if isinstance(obj, Const) and isinstance(obj.v, (str, bytes)) and attr in _PURE_STR_METHODS:
                return BoundV(obj, attr)
            if isinstance(obj, Const) and type(obj.v).__module__ == 're' and not attr.startswith('_'):
                return BoundV(obj, attr)
            if isinstance(obj, Const) and isinstance(obj.v, ast.AST) and not attr.startswith('_'):
                # a syntax tree obtained from ast.parse of a constant text: plain data
                if not hasattr(obj.v, attr):
                    raise Raised('AttributeError: %s.%s' % (type(obj.v).__name__, attr), getattr(n, 'lineno', 0))
                return _wrap_py(getattr(obj.v, attr))
            if isinstance(obj, (ListV, TupleV)):
                return BoundV(obj, attr)        # a method of a known container: modelled, or declined when it is called
            return BoundV(obj, attr) if attr in _METHODS else Sym('%s.%s' % (_prov(obj), attr))
        if isinstance(obj, ExcV):
            return Sym('%s.%s' % (_prov(obj), attr))
        if isinstance(obj, FuncV):
            return SymStr('%s.%s' % (obj.fn.name if obj.fn else 'lambda', attr), nonempty=True)
        if isinstance(obj, Prim):
            if obj.name == 'sys' and attr == 'maxsize':
                return Const(2 ** 63 - 1)
            if ('method:' + attr) in self.prims:
                return BoundV(obj, attr)
            hook = getattr(self, 'foreign_attr', {}).get(obj.name)
            if hook is not None:
                return hook(self, attr, n)
            if self._import_time and obj.name == 'sys' and attr in ('stdout', 'stderr', 'stdin'):
                return Prim('sys.%s@import-time' % attr)
            return Prim('%s.%s' % (obj.name, attr))
        raise Undecided('attribute .%s of %r' % (attr, obj))

    def e_Call(self, n, fr):
        if isinstance(n.func, ast.Name) and n.func.id == 'locals' and not n.args and fr.lookup('locals') is None:
            return DictV([(Const(k), v) for k, v in fr.vars.items()])
        if isinstance(n.func, ast.Name) and n.func.id in ('any', 'all') and len(n.args) == 1 and isinstance(n.args[0], ast.GeneratorExp) \
                and not n.keywords and fr.lookup(n.func.id) is None and n.func.id not in self.prims:
            want = n.func.id == 'any'
            for x in self._comp_iter(n.args[0], fr):
                if self.truth(x, n) is want:
                    return Const(want)
            return Const(not want)
        f = self.eval(n.func, fr)
        args = []
        for a in n.args:
            if isinstance(a, ast.Starred):
                args.extend(self.iterate(self.eval(a.value, fr), a))
            else:
                args.append(self.eval(a, fr))
        kwargs = {}
        for k in n.keywords:
            if k.arg is None:
                v = self.eval(k.value, fr)
                if isinstance(v, Sym):
                    kwargs['**'] = v
                    continue
                if isinstance(v, DictV):
                    for kk, vv in v.items:
                        if isinstance(kk, Const):
                            kwargs[kk.v] = vv
                        else:
                            kwargs.setdefault('**pairs', []).append((kk, vv))
                    continue
                for item in self.iterate(v, k.value):
                    kk, vv = self.iterate(item, k.value)
                    if isinstance(kk, Const):
                        kwargs[kk.v] = vv
                    else:
                        kwargs.setdefault('**pairs', []).append((kk, vv))
            else:
                kwargs[k.arg] = self.eval(k.value, fr)
        return self.call_function(f, args, kwargs, n)

    def e_Tuple(self, n, fr):
        return TupleV(self._elts(n.elts, fr))

    def e_List(self, n, fr):
        return ListV(self._elts(n.elts, fr))

    def e_Set(self, n, fr):
        if getattr(self, 'concrete_context', False):
            out = SetV([])
            for x in self._elts(n.elts, fr):
                if not any(self._known_eq(x, y) is True for y in out.items):
                    if any(self._known_eq(x, y) is None for y in out.items):
                        raise Undecided('set display with elements of unknown equality (line %d)' % n.lineno)
                    out.items.append(x)
            return out
        return TupleV(self._elts(n.elts, fr))

    def e_NamedExpr(self, n, fr):
        v = self.eval(n.value, fr)
        self.assign(n.target, v, fr)
        return v

    def _elts(self, elts, fr):
        out = []
        for e in elts:
            if isinstance(e, ast.Starred):
                out.extend(self.iterate(self.eval(e.value, fr), e))
            else:
                out.append(self.eval(e, fr))
        return out

    def e_Dict(self, n, fr):
        d = DictV()
        for k, v in zip(n.keys, n.values):
            if k is None:
                src_d = self.eval(v, fr)
                if isinstance(src_d, DictV):
                    for kk, vv in src_d.items:
                        d.set(kk, vv)
                elif isinstance(src_d, (TupleV, ListV)) and not src_d.items:
                    pass
                else:
                    d.set(Sym('**' + _prov(src_d)), src_d)
                continue
            d.set(self.eval(k, fr), self.eval(v, fr))
        if getattr(self, 'concrete_context', False):
            return d
        return TupleV([TupleV([k, v]) for k, v in d.items])

    def e_DictComp(self, n, fr):
        d = DictV()
        inner = Frame(fr.fn, fr.module, fr)

        def rec(i):
            if i == len(n.generators):
                d.set(self.eval(n.key, inner), self.eval(n.value, inner))
                return
            g = n.generators[i]
            for item in self.iterate(self.eval(g.iter, inner), g.iter):
                self.assign(g.target, item, inner)
                if all(self.truth(self.eval(c, inner), c) for c in g.ifs):
                    rec(i + 1)
        rec(0)
        return d

    def e_IfExp(self, n, fr):
        if self.truth(self.eval(n.test, fr), n.test):
            return self.eval(n.body, fr)
        return self.eval(n.orelse, fr)

    def e_BoolOp(self, n, fr):
        # ``a or b`` / ``a and b`` evaluate to one of their operands (not to a bool): ``x or {}``, ``v and v[0]``
        is_and = isinstance(n.op, ast.And)
        last = None
        for v in n.values:
            last = self.eval(v, fr)
            t = self.truth(last, v)
            if is_and and not t:
                # the falsy operand itself; a symbolic one is known to be falsy, nothing more
                return last if not isinstance(last, (Sym, SymStr)) else FALSE
            if (not is_and) and t:
                return last if not isinstance(last, (Sym, SymStr)) else TRUE
        if isinstance(last, (Sym, SymStr)):
            # the last operand decides: truthy for ``and`` (all were truthy), falsy for ``or`` (all were falsy)
            return TRUE if is_and else FALSE
        return last

    def e_UnaryOp(self, n, fr):
        v = self.eval(n.operand, fr)
        if isinstance(n.op, ast.Not):
            return Const(not self.truth(v, n.operand))
        if isinstance(n.op, ast.USub) and isinstance(v, Const):
            return Const(-v.v)
        return Sym('-%s' % _prov(v))

    def e_BinOp(self, n, fr):
        return self.binop(type(n.op), self.eval(n.left, fr), self.eval(n.right, fr), n)

    def binop(self, op, l, r, n):
        if isinstance(l, Const) and isinstance(r, Const):
            try:
                if op is ast.Add:
                    return Const(l.v + r.v)
                if op is ast.Sub:
                    return Const(l.v - r.v)
                if op is ast.Mult:
                    return Const(l.v * r.v)
                if op is ast.Mod:
                    return Const(l.v % r.v)
                if op is ast.FloorDiv:
                    return Const(l.v // r.v)
                if op is ast.Div and getattr(self, 'concrete_context', False):
                    return Const(l.v / r.v)
                if getattr(self, 'concrete_context', False):
                    import operator as _op
                    fn_ = {ast.Pow: _op.pow, ast.LShift: _op.lshift, ast.RShift: _op.rshift, ast.BitAnd: _op.and_, ast.BitOr: _op.or_,
                           ast.BitXor: _op.xor}.get(op)
                    if fn_ is not None and not (op is ast.Pow and isinstance(r.v, int) and abs(r.v) > 64):
                        return Const(fn_(l.v, r.v))
            except ZeroDivisionError as e:
                raise Raised('ZeroDivisionError: %s' % e, getattr(n, 'lineno', 0))
            except TypeError as e:
                raise Raised('TypeError: %s' % e, getattr(n, 'lineno', 0))
            except Exception:
                raise Undecided('constant arithmetic failed at line %s' % getattr(n, 'lineno', '?'))
        if op is ast.Add and isinstance(l, (ListV, TupleV)) and isinstance(r, (ListV, TupleV)):
            return type(l)(l.items + r.items)
        if isinstance(l, SetV) and isinstance(r, SetV) and op in (ast.Sub, ast.BitAnd, ast.BitOr, ast.BitXor):
            # set algebra is decided only when membership of every element is known
            def member(x, s):
                ks = [self._known_eq(x, y) for y in s.items]
                if any(k is True for k in ks):
                    return True
                if any(k is None for k in ks):
                    raise Undecided('set algebra on elements of unknown equality (line %s)' % getattr(n, 'lineno', '?'))
                return False
            if op is ast.Sub:
                return SetV([x for x in l.items if not member(x, r)])
            if op is ast.BitAnd:
                return SetV([x for x in l.items if member(x, r)])
            if op is ast.BitOr:
                return SetV(list(l.items) + [y for y in r.items if not member(y, l)])
            return SetV([x for x in l.items if not member(x, r)] + [y for y in r.items if not member(y, l)])
        if op is ast.Add and (isinstance(l, SymStr) or isinstance(r, SymStr) or
                              (isinstance(l, Const) and isinstance(l.v, str)) or (isinstance(r, Const) and isinstance(r.v, str))):
            ne = (getattr(l, 'nonempty', None) or getattr(r, 'nonempty', None) or
                  (isinstance(l, Const) and bool(l.v)) or (isinstance(r, Const) and bool(r.v))) or None
            return SymStr('%s+%s' % (_prov(l), _prov(r)), nonempty=ne)
        if op is ast.Mod and isinstance(l, Const) and isinstance(l.v, (str, bytes)) and getattr(self, 'concrete_context', False):
            try:
                return Const(l.v % _plain(r))
            except _NotPlain:
                pass
            except (TypeError, ValueError) as e:
                raise Raised('%s: %s' % (type(e).__name__, e), getattr(n, 'lineno', 0))
        if op is ast.Mult and getattr(self, 'concrete_context', False) and isinstance(l, (ListV, TupleV)) and isinstance(r, Const) and isinstance(r.v, int) \
                and not getattr(l, 'lazy', False):
            return type(l)(list(l.items) * r.v)
        if op is ast.Mod and isinstance(l, Const) and isinstance(l.v, str):
            return SymStr('%r%%%s' % (l.v, _prov(r)), nonempty=True if l.v else None)
        sym = {ast.Add: '+', ast.Sub: '-', ast.Mult: '*', ast.Mod: '%', ast.FloorDiv: '//', ast.Div: '/', ast.BitAnd: '&', ast.BitOr: '|'}.get(op, '?')
        return Sym('(%s%s%s)' % (_prov(l), sym, _prov(r)), 'int')

    def e_Compare(self, n, fr):
        left = self.eval(n.left, fr)
        result = True
        for op, comp in zip(n.ops, n.comparators):
            right = self.eval(comp, fr)
            v = self.compare(type(op), left, right, n)
            if not v:
                return FALSE
            left = right
        return TRUE

    def compare(self, op, l, r, n):
        neg = op in (ast.NotEq, ast.IsNot, ast.NotIn)
        base = {ast.NotEq: ast.Eq, ast.IsNot: ast.Is, ast.NotIn: ast.In}.get(op, op)
        v = self._compare(base, l, r, n)
        return (not v) if neg else v

    def _compare(self, op, l, r, n):
        if op is ast.In and isinstance(l, Const) and isinstance(r, Const) and isinstance(r.v, (str, bytes, tuple)):
            try:
                return l.v in r.v
            except TypeError as e:
                raise Raised('TypeError: %s' % e, getattr(n, 'lineno', 0))
        if op is ast.In:
            if isinstance(r, DictV):
                r = ListV([k for k, _ in r.items])
            if isinstance(r, SetV):
                r = ListV(r.items)
            if isinstance(r, (TupleV, ListV)):
                unknown = False
                for it in r.items:
                    if self._known_eq(l, it) is True:
                        return True
                    if self._known_eq(l, it) is None:
                        unknown = True
                if not unknown:
                    return False
            return self.decide('%s in %s' % (_prov(l), _prov(r)))
        if op in (ast.Is, ast.Eq):
            k = self._known_is(l, r) if op is ast.Is else self._known_eq(l, r)
            if k is not None:
                return k
            a, b = sorted([_prov(l), _prov(r)])
            if op is ast.Is and not _singleton_like(l) and not _singleton_like(r):
                # identity of two arbitrary values is not their equality (an equal but distinct object): a fact of its own
                return self.decide('%s is %s' % (a, b))
            return self.decide('%s == %s' % (a, b))
        if isinstance(l, Const) and isinstance(r, Const):
            try:
                return {ast.Lt: lambda: l.v < r.v, ast.LtE: lambda: l.v <= r.v, ast.Gt: lambda: l.v > r.v, ast.GtE: lambda: l.v >= r.v}[op]()
            except TypeError as e:
                raise Raised('TypeError: %s' % e, getattr(n, 'lineno', 0))
            except Exception:
                raise Undecided('constant comparison failed')
        if getattr(self, 'concrete_context', False) and op in (ast.Lt, ast.LtE, ast.Gt, ast.GtE) \
                and ((isinstance(l, (TupleV, ListV, DictV, SetV)) and isinstance(r, Const)) or (isinstance(r, (TupleV, ListV, DictV)) and isinstance(l, Const))
                     or (isinstance(l, (TupleV, ListV)) and isinstance(r, (TupleV, ListV)) and type(l) is not type(r))):
            raise Raised("TypeError: '<' not supported between instances of these types", getattr(n, 'lineno', 0))
        if isinstance(l, (TupleV, ListV)) and type(l) is type(r) and op in (ast.Lt, ast.LtE, ast.Gt, ast.GtE):
            try:
                pl_, pr_ = _plain(l), _plain(r)
                return {ast.Lt: pl_ < pr_, ast.LtE: pl_ <= pr_, ast.Gt: pl_ > pr_, ast.GtE: pl_ >= pr_}[op]
            except _NotPlain:
                pass
            except TypeError as e:
                raise Raised('TypeError: %s' % e, getattr(n, 'lineno', 0))
        if isinstance(l, SetV) and isinstance(r, SetV) and op in (ast.LtE, ast.GtE):
            a, b = (l, r) if op is ast.LtE else (r, l)
            return all(any(self._known_eq(x, y) is True for y in b.items) for x in a.items)
        sym = {ast.Lt: '<', ast.LtE: '<=', ast.Gt: '>', ast.GtE: '>='}[op]
        # canonical orientation: a < b  /  a <= b
        if sym in ('>', '>='):
            l, r = r, l
            sym = '<' if sym == '>' else '<='
        return self.decide('%s %s %s' % (_prov(l), sym, _prov(r)))

    def _known_is(self, l, r):
        """``l is r``: identity for objects with identity, the singletons None / True / False by value, other constants of the same
        type and value as one object (small ints, interned strings, module constants compared with themselves)"""
        # a builtin type whose *call* a model overrides is still that type as a value
        if isinstance(l, Prim) and l.name in _BUILTIN_TYPE_NAMES:
            l = TypeV(l.name)
        if isinstance(r, Prim) and r.name in _BUILTIN_TYPE_NAMES:
            r = TypeV(r.name)
        if isinstance(l, FuncV) and isinstance(r, FuncV):
            return l.fn is r.fn and l.env is r.env      # the same function object, however it was looked up
        if isinstance(l, (ListV, DictV, SetV, ObjV, OpaqueV, IterV, PartialV, ExcV, StringIOV)) or isinstance(r, (ListV, DictV, SetV, ObjV, OpaqueV, IterV, PartialV, ExcV, StringIOV)):
            if isinstance(l, (Sym, SymStr, ValueV)) or isinstance(r, (Sym, SymStr, ValueV)):
                return None
            return l is r
        if isinstance(l, Const) and isinstance(r, Const):
            if l.v is None or r.v is None or isinstance(l.v, bool) or isinstance(r.v, bool):
                return l.v is r.v
            return type(l.v) is type(r.v) and l.v == r.v
        return self._known_eq(l, r)

    def _known_eq(self, l, r):
        if isinstance(l, OpaqueV) or isinstance(r, OpaqueV):
            if isinstance(l, (Sym, SymStr)) or isinstance(r, (Sym, SymStr)):
                return None
            return l is r
        if isinstance(l, Const) and isinstance(r, Const):
            try:
                return bool(l.v == r.v)
            except Exception:
                return None
        if isinstance(l, ListV) and isinstance(r, ListV) and not getattr(l, 'lazy', False) and not getattr(r, 'lazy', False):
            if len(l.items) != len(r.items):
                return False
            ks = [self._known_eq(a, b) for a, b in zip(l.items, r.items)]
            if any(k is False for k in ks):
                return False
            return True if all(k is True for k in ks) else None
        if (isinstance(l, ListV) and isinstance(r, TupleV)) or (isinstance(l, TupleV) and isinstance(r, ListV)):
            return False
        if isinstance(l, DictV) and isinstance(r, DictV):
            if len(l.items) != len(r.items):
                return False
            unknown = False
            for k_, v_ in l.items:
                other = r.get(k_)
                if other is None:
                    # the key may be present under an element of unknown equality
                    if any(self._known_eq(k_, k2_) is None for k2_, _ in r.items):
                        return None
                    return False
                e_ = self._known_eq(v_, other)
                if e_ is False:
                    return False
                unknown = unknown or e_ is None
            return None if unknown else True
        if isinstance(l, SetV) and isinstance(r, SetV):
            if len(l.items) != len(r.items):
                return False
            for x_ in l.items:
                ks_ = [self._known_eq(x_, y_) for y_ in r.items]
                if not any(k_ is True for k_ in ks_):
                    return None if any(k_ is None for k_ in ks_) else False
            return True
        if isinstance(l, TypeV) and isinstance(r, TypeV):
            return l.name == r.name
        if isinstance(l, PartialV) or isinstance(r, PartialV):
            return l is r
        if isinstance(l, (Sym, SymStr)) and isinstance(r, (Sym, SymStr)) and l.prov == r.prov:
            return True
        if isinstance(l, AnnotV) and isinstance(r, AnnotV) and isinstance(l.label, str) and isinstance(r.label, str):
            return l.label == r.label
        if isinstance(l, TupleV) and isinstance(r, TupleV):
            if len(l.items) != len(r.items):
                return False
            ks = [self._known_eq(a, b) for a, b in zip(l.items, r.items)]
            if any(k is False for k in ks):
                return False
            return True if all(k is True for k in ks) else None
        if isinstance(l, ObjV) or isinstance(r, ObjV):
            if isinstance(l, ObjV) and isinstance(r, ObjV):
                return l is r
            if isinstance(l, (Sym, SymStr)) or isinstance(r, (Sym, SymStr)):
                return None
            return False
        if isinstance(l, DocV) and isinstance(r, DocV):
            if l.t is D.NIL or r.t is D.NIL or l.t is D.HL or r.t is D.HL:
                return l.t is r.t
            return None
        if isinstance(l, (DocV, ListV, TupleV, CtxV, FuncV, AnnotV, ValueV, SetV, DictV, ObjV, Prim, TypeV, PartialV, BoundV)) and isinstance(r, Const):
            return False
        if isinstance(r, (DocV, ListV, TupleV, CtxV, FuncV, AnnotV, ValueV, SetV, DictV, ObjV, Prim, TypeV, PartialV, BoundV)) and isinstance(l, Const):
            return False
        if isinstance(l, FuncV) and isinstance(r, FuncV):
            return l.fn is r.fn
        if isinstance(l, Prim) and isinstance(r, Prim):
            return l.name == r.name
        if isinstance(l, Sym) and l.typ in ('style', 'int') and isinstance(r, Const) and r.v is None:
            return False        # a value of a known kind (a style object of the colour model, an integer) is not None
        if isinstance(r, Sym) and r.typ in ('style', 'int') and isinstance(l, Const) and l.v is None:
            return False
        if isinstance(l, SymStr) and isinstance(r, Const) and r.v is None:
            return False
        if isinstance(r, SymStr) and isinstance(l, Const) and l.v is None:
            return False
        return None

    def e_Subscript(self, n, fr):
        obj = self.eval(n.value, fr)
        if isinstance(n.slice, ast.Slice):
            lo = self.eval(n.slice.lower, fr) if n.slice.lower is not None else NONE
            hi = self.eval(n.slice.upper, fr) if n.slice.upper is not None else NONE
            if isinstance(obj, (ListV, TupleV)) and isinstance(lo, Const) and isinstance(hi, Const) and n.slice.step is None:
                return type(obj)(obj.items[lo.v:hi.v])
            if isinstance(obj, (ListV, TupleV)) and isinstance(lo, Const) and isinstance(hi, Const) and n.slice.step is not None:
                st_ = self.eval(n.slice.step, fr)
                if isinstance(st_, Const) and isinstance(st_.v, int) and st_.v != 0:
                    return type(obj)(obj.items[lo.v:hi.v:st_.v])
            if isinstance(obj, Const) and isinstance(obj.v, (str, bytes, tuple)) and isinstance(lo, Const) and isinstance(hi, Const) and n.slice.step is not None:
                st_ = self.eval(n.slice.step, fr)
                if isinstance(st_, Const) and isinstance(st_.v, int) and st_.v != 0:
                    return _wrap_py(obj.v[lo.v:hi.v:st_.v])
            if isinstance(obj, Const) and isinstance(obj.v, (str, bytes, tuple)) and isinstance(lo, Const) and isinstance(hi, Const) and n.slice.step is None:
                try:
                    return _wrap_py(obj.v[lo.v:hi.v])
                except TypeError as e:
                    raise Raised('TypeError: %s' % e, n.lineno)
            if isinstance(obj, (SymStr,)) or (isinstance(obj, Sym) and obj.typ == 'str'):
                return SymStr('%s[%s:%s]' % (_prov(obj), _prov(lo), _prov(hi)))
            return Sym('%s[%s:%s]' % (_prov(obj), _prov(lo), _prov(hi)))
        idx = self.eval(n.slice, fr)
        if isinstance(obj, Const) and isinstance(obj.v, (str, bytes, tuple)) and isinstance(idx, Const) and isinstance(idx.v, int):
            try:
                return _wrap_py(obj.v[idx.v])
            except IndexError:
                raise Raised('IndexError: %s[%d]' % (src(n.value), idx.v), n.lineno)
        if isinstance(obj, DictV):
            r = obj.get(idx)
            if r is None:
                raise Raised('KeyError: %s' % _prov(idx), n.lineno)
            return r
        if isinstance(obj, (ListV, TupleV)) and isinstance(idx, Const) and isinstance(idx.v, int):
            try:
                return obj.items[idx.v]
            except IndexError:
                raise Raised('IndexError: %s[%d]' % (src(n.value), idx.v), n.lineno)
        if isinstance(obj, ValueV):
            return Sym('%s[%s]' % (obj.prov, _prov(idx)))
        return Sym('%s[%s]' % (_prov(obj), _prov(idx)))

    def e_ListComp(self, n, fr):
        return ListV(self._comp(n, fr))

    def e_GeneratorExp(self, n, fr):
        return ListV(self._comp(n, fr), lazy=True)

    def e_SetComp(self, n, fr):
        if not getattr(self, 'concrete_context', False):
            return ListV(self._comp(n, fr))
        out = SetV([])
        for x in self._comp(n, fr):
            ks = [self._known_eq(x, y) for y in out.items]
            if any(k_ is True for k_ in ks):
                continue
            if any(k_ is None for k_ in ks):
                raise Undecided('set comprehension with elements of unknown equality (line %d)' % n.lineno)
            out.items.append(x)
        return out

    def _comp(self, n, fr):
        return list(self._comp_iter(n, fr))

    def _comp_iter(self, n, fr):
        """the elements of a comprehension / generator expression, produced one by one (a consumer that stops early - any, all,
        next - leaves the rest unevaluated, as in Python)"""
        inner = Frame(fr.fn, fr.module, fr)

        def rec(i):
            if i == len(n.generators):
                yield self.eval(n.elt, inner)
                return
            g = n.generators[i]
            for item in self.iterate(self.eval(g.iter, inner), g.iter):
                self.assign(g.target, item, inner)
                if all(self.truth(self.eval(c, inner), c) for c in g.ifs):
                    yield from rec(i + 1)
        yield from rec(0)

    def e_Lambda(self, n, fr):
        f = FuncV(None, fr, n)
        a = n.args
        if a.defaults or any(d is not None for d in a.kw_defaults):
            # default values are evaluated when the lambda is created
            pos = [x.arg for x in a.posonlyargs + a.args]
            dv = {}
            for name_, d in zip(pos[len(pos) - len(a.defaults):], a.defaults):
                dv[name_] = self.eval(d, fr)
            for x, d in zip(a.kwonlyargs, a.kw_defaults):
                if d is not None:
                    dv[x.arg] = self.eval(d, fr)
            self._lambda_defaults = getattr(self, '_lambda_defaults', {})
            self._lambda_defaults[id(n)] = (n, dv)
            f = FuncV(None, Frame(None, fr.module, fr), n)
            f.env.vars.update(dv)
            f.env.lambda_defaults = dv
        return f

    def e_JoinedStr(self, n, fr):
        parts = []
        all_const = True
        nonempty = False
        for v in n.values:
            if isinstance(v, ast.Constant):
                parts.append(str(v.value))
                nonempty = nonempty or bool(v.value)
            else:
                val = self.eval(v.value, fr)
                if isinstance(val, Const) and isinstance(val.v, (str, int)) and v.conversion == -1 and v.format_spec is None:
                    parts.append(str(val.v))
                    nonempty = nonempty or bool(str(val.v))
                elif getattr(self, 'concrete_context', False) and self._fstring_piece(v, val, fr) is not None:
                    piece_ = self._fstring_piece(v, val, fr)
                    parts.append(piece_)
                    nonempty = nonempty or bool(piece_)
                else:
                    all_const = False
                    conv = {114: '!r', 115: '!s', 97: '!a'}.get(v.conversion, '')
                    parts.append('{%s%s}' % (_prov(val), conv))
        if all_const:
            return Const(''.join(parts))
        return SymStr('format(%r;%s)' % ('', ''.join(parts)), nonempty=True if nonempty else None)

    def _fstring_piece(self, v, val, fr):
        """the text of one replacement field of an f-string whose value is made of constants (conversion and format spec applied by
        Python's own format machinery), or None"""
        try:
            pv = _plain(val)
        except _NotPlain:
            return None
        spec = ''
        if v.format_spec is not None:
            sp = self.e_JoinedStr(v.format_spec, fr)
            if not isinstance(sp, Const):
                return None
            spec = sp.v
        try:
            if v.conversion == 114:
                pv = repr(pv)
            elif v.conversion == 115:
                pv = str(pv)
            elif v.conversion == 97:
                pv = ascii(pv)
            return format(pv, spec)
        except Exception:
            return None

    def e_Starred(self, n, fr):
        raise Undecided('bare starred expression')

    # ---------------------------------------------------------------- truth / iteration
    def cond_key(self, v, node):
        return 'truthy(%s)' % _prov(v)

    def truth(self, v, node=None):
        if isinstance(v, Const):
            return bool(v.v)
        if isinstance(v, ListV) and getattr(v, 'lazy', False):
            return True         # an iterator object (generator, zip, map ...) is truthy whether or not anything is left in it
        if isinstance(v, (ListV, TupleV, SetV, DictV)):
            return len(v.items) > 0
        if isinstance(v, (DocV, CtxV, FuncV, Prim, TypeV, AnnotV, BoundV, ObjV, PartialV, ExcV, IterV, OpaqueV, CycleV, NTClassV, StringIOV)):
            return True
        if isinstance(v, SymStr):
            if v.nonempty is True:
                return True
            return self.decide('truthy(%s)' % v.prov)
        if isinstance(v, ValueV):
            if v.elems is not None:
                return len(v.elems) > 0
            return self.decide('truthy(%s)' % v.prov)
        if isinstance(v, Sym):
            return self.decide('truthy(%s)' % v.prov)
        raise Undecided('truth of %r' % (v,))

    def iterate(self, v, node=None):
        if isinstance(v, CycleV):
            raise Undecided('iteration over an endless cycle (line %s)' % getattr(node, 'lineno', '?'))
        if isinstance(v, IterV):
            rest = v.items[v.pos:]
            v.pos = len(v.items)
            return rest
        if isinstance(v, ListV) and getattr(v, 'lazy', False):
            # a one-shot iterator (generator, zip, map, ...): what is read is gone - a second pass finds it empty
            items_ = list(v.items)
            del v.items[:]
            return items_
        if isinstance(v, (ListV, TupleV, SetV)):
            return list(v.items)
        if isinstance(v, DictV):
            return [k for k, _ in v.items]
        if isinstance(v, ValueV) and v.elems is not None:
            return list(v.elems)
        if isinstance(v, Const) and isinstance(v.v, (tuple, list, str, bytes, range)):
            return [Const(x) for x in v.v]
        if isinstance(v, DocV) or (isinstance(v, ObjV) and self.find_method(v.cls, '__iter__') is None and v.cls.module is not None):
            # document objects (and plain objects of package classes without __iter__) are not iterable
            raise Raised("TypeError: '%s' object is not iterable" % (v.cls.name if isinstance(v, ObjV) else 'Doc'), getattr(node, 'lineno', 0))
        raise Undecided('iteration over %r (line %s)' % (v, getattr(node, 'lineno', '?')))

    # ---------------------------------------------------------------- methods
    def call_method(self, obj, name, args, kwargs, node):
        hook = self.prims.get('method:' + name)
        if hook is not None:
            r = hook(self, obj, args, kwargs, node)
            if r is not NotImplemented:
                return r
        if isinstance(obj, NamedTupleV) and name == '_replace':
            bad_ = [k_ for k_ in kwargs if k_ not in obj.cls.fields]
            if bad_ or args:
                raise Raised('ValueError: Got unexpected field names: %r' % bad_, getattr(node, 'lineno', 0))
            return NamedTupleV(obj.cls, [kwargs.get(f_, x_) for f_, x_ in zip(obj.cls.fields, obj.items)])
        if isinstance(obj, NamedTupleV) and name == '_asdict':
            return DictV([(Const(f_), x_) for f_, x_ in zip(obj.cls.fields, obj.items)])
        if isinstance(obj, NTClassV) and name == '_make' and len(args) == 1:
            return self._make_namedtuple(obj, self.iterate(args[0], node), {}, node)
        if isinstance(obj, StringIOV):
            ln = getattr(node, 'lineno', '?')
            if not obj.pos_at_end:
                raise Undecided('StringIO used after seek / with initial text (line %s)' % ln)
            if name == 'write' and len(args) == 1:
                if isinstance(args[0], Const) and not isinstance(args[0].v, str):
                    raise Raised('TypeError: string argument expected, got %r' % type(args[0].v).__name__, getattr(node, 'lineno', 0))
                obj.parts.append(args[0])
                return Const(len(args[0].v)) if isinstance(args[0], Const) else Sym('len(%s)' % _prov(args[0]), 'int')
            if name == 'getvalue' and not args:
                if all(isinstance(x, Const) for x in obj.parts):
                    return Const(''.join(x.v for x in obj.parts))
                return SymStr('StringIO(%s)' % '+'.join(_prov(x) for x in obj.parts))
            if name == 'tell' and not args:
                if all(isinstance(x, Const) for x in obj.parts):
                    return Const(sum(len(x.v) for x in obj.parts))
                return Sym('tell(%s)' % '+'.join(_prov(x) for x in obj.parts), 'int')
            if name in ('flush', 'close', '__enter__', '__exit__'):
                return obj if name == '__enter__' else NONE
            if name == 'writable':
                return TRUE
            raise Undecided('StringIO.%s (line %s)' % (name, ln))
        if isinstance(obj, Sym) and obj.typ == 'lock':
            if name == 'acquire':
                return TRUE
            if name in ('release', '__exit__'):
                return NONE
            if name == '__enter__':
                return TRUE
            if name == 'locked':
                return FALSE
        if isinstance(obj, ListV):
            if name == 'append':
                obj.items.append(args[0])
                return NONE
            if name == 'extend':
                obj.items.extend(self.iterate(args[0], node))
                return NONE
            if name == 'pop':
                try:
                    return obj.items.pop(args[0].v if args else -1)
                except IndexError:
                    raise Raised('IndexError: pop from empty list', getattr(node, 'lineno', 0))
            if name == 'reverse':
                obj.items.reverse()
                return NONE
            if name == 'insert' and isinstance(args[0], Const):
                obj.items.insert(args[0].v, args[1])
                return NONE
            if name == 'copy':
                return ListV(list(obj.items))
            if name == 'sort':
                srt = self.p_sorted([obj], kwargs, node)
                obj.items[:] = srt.items
                return NONE
            if name == 'clear':
                del obj.items[:]
                return NONE
            if name == 'remove' and args:
                for i_, x in enumerate(obj.items):
                    k_ = self._known_eq(args[0], x)
                    if k_ is None:
                        raise Undecided('list.remove of an element of unknown equality (line %s)' % getattr(node, 'lineno', '?'))
                    if k_:
                        del obj.items[i_]
                        return NONE
                raise Raised('ValueError: list.remove(x): x not in list', getattr(node, 'lineno', 0))
        if isinstance(obj, ObjV):
            meth = self.find_method(obj.cls, name) if obj.cls.module is not None else obj.cls.methods.get(name)
            if meth is None:
                raise Undecided('method %s of %s' % (name, obj.cls.name))
            return self.call_function(FuncV(meth), [obj] + list(args), dict(kwargs), node)
        if isinstance(obj, ChainMapV):
            if name == 'new_child':
                child = args[0] if args else kwargs.get('m')
                if child is None or (isinstance(child, Const) and child.v is None):
                    child = DictV([])
                if not isinstance(child, DictV):
                    raise Undecided('ChainMap.new_child(%s)' % _prov(child))
                return ChainMapV([child] + list(obj.maps))
            if name in ('pop', 'clear', 'update', 'setdefault', 'popitem'):
                return self.call_method(obj.maps[0], name, args, kwargs, node)
            if name == 'copy':
                return ChainMapV([DictV(list(obj.maps[0].items))] + list(obj.maps[1:]))
        if isinstance(obj, DictV):
            if name == 'keys':
                return ListV([k for k, _ in obj.items])
            if name == 'values':
                return ListV([v for _, v in obj.items])
            if name == 'items':
                return ListV([TupleV([k, v]) for k, v in obj.items])
            if name == 'get':
                r = obj.get(args[0])
                return r if r is not None else (args[1] if len(args) > 1 else NONE)
            if name == 'copy':
                return DictV(list(obj.items))
            if name == 'pop':
                for i_, (kk, vv) in enumerate(obj.items):
                    if DictV._same_key(kk, args[0]):
                        del obj.items[i_]
                        return vv
                if len(args) > 1:
                    return args[1]
                raise Raised('KeyError: %s' % _prov(args[0]), getattr(node, 'lineno', 0))
            if name == 'setdefault':
                r = obj.get(args[0])
                if r is None:
                    r = args[1] if len(args) > 1 else NONE
                    obj.set(args[0], r)
                return r
            if name == 'clear':
                obj.items[:] = []
                return NONE
            if name == 'update':
                if args:
                    if isinstance(args[0], DictV):
                        pairs = list(args[0].items)
                    else:
                        pairs = []
                        for item in self.iterate(args[0], node):        # Undecided when it cannot be iterated
                            kv = self.iterate(item, node)
                            if len(kv) != 2:
                                raise Raised('ValueError: dictionary update sequence element has length %d' % len(kv), getattr(node, 'lineno', 0))
                            pairs.append((kv[0], kv[1]))
                    for kk, vv in pairs:
                        obj.set(kk, vv)
                for kk, vv in kwargs.items():
                    if kk.startswith('**'):
                        raise Undecided('dict.update with symbolic keyword arguments')
                    obj.set(Const(kk), vv)
                return NONE
        if isinstance(obj, SetV):
            if name == 'add':
                if not any(self._known_eq(args[0], x) is True for x in obj.items):
                    obj.items.append(args[0])
                return NONE
            if name in ('remove', 'discard'):
                for i, x in enumerate(obj.items):
                    if self._known_eq(args[0], x) is True:
                        del obj.items[i]
                        return NONE
                if name == 'remove':
                    raise Raised('KeyError: %s' % _prov(args[0]), getattr(node, 'lineno', 0))
                return NONE
            if name == 'issubset':
                other = args[0].items if isinstance(args[0], (SetV, ListV, TupleV)) else []
                return Const(all(any(self._known_eq(x, y) is True for y in other) for x in obj.items))
            if name == 'copy':
                return SetV(list(obj.items))
            if name in ('union', 'intersection', 'difference', 'symmetric_difference') and len(args) == 1 and getattr(self, 'concrete_context', False):
                other_ = args[0] if isinstance(args[0], SetV) else SetV(self.iterate(args[0], node))
                op_ = {'union': ast.BitOr, 'intersection': ast.BitAnd, 'difference': ast.Sub, 'symmetric_difference': ast.BitXor}[name]
                return self.binop(op_, obj, other_, node)
            if name == 'update' and getattr(self, 'concrete_context', False):
                for a_ in args:
                    for x in self.iterate(a_, node):
                        self.call_method(obj, 'add', [x], {}, node)
                return NONE
            if name == 'issuperset' and len(args) == 1:
                other = self.iterate(args[0], node)
                return Const(all(any(self._known_eq(x, y) is True for y in obj.items) for x in other))
            if name == 'clear':
                del obj.items[:]
                return NONE
        if isinstance(obj, (ListV, TupleV)) and name in ('index', 'count') and args and getattr(self, 'concrete_context', False) \
                and not getattr(obj, 'lazy', False):
            ks_ = [self._known_eq(args[0], x) for x in obj.items]
            if any(k_ is None for k_ in ks_):
                raise Undecided('%s of an element of unknown equality (line %s)' % (name, getattr(node, 'lineno', '?')))
            if name == 'count':
                return Const(sum(1 for k_ in ks_ if k_))
            if True in ks_:
                return Const(ks_.index(True))
            raise Raised('ValueError: %s is not in list' % _prov(args[0]), getattr(node, 'lineno', 0))
        if isinstance(obj, CtxV):
            if name == 'nested_call':
                return CtxV(obj.prov, obj.nested + 1, obj.strategy, obj.attrs)
            if name == 'use_multiline_strategy':
                return CtxV(obj.prov, obj.nested, args[0], obj.attrs)
            if name in ('assoc', 'set'):
                return obj
            if name == 'get':
                return Sym('%s.get(%s)' % (obj.prov, _prov(args[0])))
            if name == '_replace' and not args and kwargs and set(kwargs) <= {'depth_left', 'multiline_strategy'}:
                # the copier with the two fields the public derivation methods set: the depth of this context or one less (what
                # nested_call gives), any strategy (what use_multiline_strategy gives) - the same abstract context as those calls
                nested_ = obj.nested
                okd_ = True
                if 'depth_left' in kwargs:
                    dp_ = _prov(kwargs['depth_left']).replace(' ', '').strip('()')
                    cur_ = '%s.depth_left-%d' % (obj.prov, obj.nested)
                    if dp_ == cur_ + '-1':
                        nested_ += 1
                    elif dp_ != cur_:
                        okd_ = False
                if okd_:
                    return CtxV(obj.prov, nested_, kwargs.get('multiline_strategy', obj.strategy), obj.attrs)
        if isinstance(obj, Const) and type(obj.v).__module__ == 're' and not kwargs and all(isinstance(a, Const) for a in args) \
                and not name.startswith('_'):
            try:
                r = getattr(obj.v, name)(*[a.v for a in args])
            except Exception as e:
                raise Raised('%s: %s' % (type(e).__name__, e), getattr(node, 'lineno', 0))
            return _wrap_py(r)
        if isinstance(obj, Const) and isinstance(obj.v, (str, bytes)) and name in _PURE_STR_METHODS and hasattr(obj.v, name) and not kwargs \
                and all(isinstance(a, Const) or (isinstance(a, TupleV) and all(isinstance(x, Const) for x in a.items)) for a in args) \
                and (isinstance(obj.v, str) or getattr(self, 'concrete_context', False)):
            try:
                r = getattr(obj.v, name)(*[_plain(a) for a in args])
            except Exception as e:      # what CPython would raise
                raise Raised('%s: %s' % (type(e).__name__, e), getattr(node, 'lineno', 0))
            if isinstance(r, list):
                return ListV([Const(x) for x in r])
            if isinstance(r, tuple):
                return TupleV([Const(x) for x in r])
            return Const(r)
        if name == 'format' and isinstance(obj, Const) and isinstance(obj.v, str) and (args or kwargs) \
                and all(isinstance(a, Const) and isinstance(a.v, (str, int, float, bytes, type(None))) for a in list(args) + list(kwargs.values())) \
                and getattr(self, 'concrete_context', False):
            try:
                return Const(obj.v.format(*[a.v for a in args], **{k_: v_.v for k_, v_ in kwargs.items()}))
            except Exception as e:
                raise Raised('%s: %s' % (type(e).__name__, e), getattr(node, 'lineno', 0))
        if name == 'format':
            parts = ','.join(_prov(a) for a in args)
            ne = True if (isinstance(obj, Const) and obj.v.replace('{}', '')) else None
            return SymStr('format(%s;%s)' % (_prov(obj), parts), nonempty=ne)
        if name == 'join':
            if isinstance(obj, Const) and isinstance(obj.v, (str, bytes)) and isinstance(args[0], (ListV, TupleV, IterV)) \
                    and getattr(self, 'concrete_context', False):
                items_ = self.iterate(args[0], node)
                if all(isinstance(x, Const) and type(x.v) is type(obj.v) for x in items_):
                    return Const(obj.v.join(x.v for x in items_))
                args = [ListV(items_)]
            if isinstance(obj, Const) and isinstance(obj.v, str) and isinstance(args[0], (ListV, TupleV)) \
                    and all(isinstance(x, Const) and isinstance(x.v, str) for x in args[0].items):
                return Const(obj.v.join(x.v for x in args[0].items))
            return SymStr('join(%s)' % _prov(args[0]))
        if name in ('keys', 'items', 'values') and isinstance(obj, ValueV):
            if obj.elems is None:
                return Sym('%s.%s()' % (obj.prov, name))
            if name == 'keys':
                return ListV(list(obj.elems))
            if name == 'items':
                return ListV([TupleV([k, Sym('%s[%s]' % (obj.prov, _prov(k)))]) for k in obj.elems])
            return ListV([Sym('%s[%s]' % (obj.prov, _prov(k))) for k in obj.elems])
        if name in ('items',) and isinstance(obj, (TupleV, ListV)):
            return obj      # kwargs given as list of pairs / dict model
        if name == 'replace' and isinstance(obj, (Sym, SymStr)) and len(args) >= 2:
            step = (args[0].v if isinstance(args[0], Const) else _prov(args[0]),
                    args[1].v if isinstance(args[1], Const) else _prov(args[1]),
                    (args[2].v if isinstance(args[2], Const) else _prov(args[2])) if len(args) > 2 else None)
            ops = (obj.ops if isinstance(obj, SymStr) else ()) + (step,)
            base = obj.base if isinstance(obj, SymStr) else obj.prov
            return SymStr('%s.replace(%s)' % (_prov(obj), ','.join(_prov(a) for a in args)), ops=ops, base=base)
        if name in ('splitlines', 'split', 'count', 'find', 'replace', 'startswith', 'endswith', 'lower', 'upper', 'strip', 'rstrip', 'index'):
            return Sym('%s.%s(%s)' % (_prov(obj), name, ','.join(_prov(a) for a in args)))
        if name == 'get':
            return Sym('%s.get(%s)' % (_prov(obj), ','.join(_prov(a) for a in args)))
        raise Undecided('method %s of %r (line %s)' % (name, obj, getattr(node, 'lineno', '?')))

    # ---------------------------------------------------------------- constructors
    def _wrapper_classes(self):
        w = getattr(self, '_wrapper_cls_names', None)
        if w is None:
            try:
                from . import roles
                r = roles.roles(self.repo)
                w = {r.get('commented_cls'), r.get('trailing_cls')} - {None}
            except Exception:
                w = set()
            w |= {'_CommentedValue', '_TrailingCommentedValue'}
            self._wrapper_cls_names = w
        return w

    def _type_bases(self, name):
        import builtins as _bi
        for m_ in self.repo.modules.values():
            ci = m_.classes.get(name)
            if ci is not None:
                return [b.split('.')[-1] for b in ci.bases] or ['object']
        cls_ = getattr(_bi, name, None)
        if isinstance(cls_, type):
            return [b.__name__ for b in cls_.__bases__]
        return None

    def _type_mro(self, name, _depth=0):
        """linearisation of a class given by name: package classes through their bases (single inheritance chains and simple
        diamonds: depth-first, duplicates keep their last position), builtins by CPython's own __mro__; None when unknown"""
        import builtins as _bi
        if _depth > 8:
            return None
        cls_ = getattr(_bi, name, None)
        if isinstance(cls_, type) and not self._is_package_class(name):
            return [c.__name__ for c in cls_.__mro__]
        bases_ = self._type_bases(name)
        if bases_ is None:
            return None
        out = [name]
        for b in bases_:
            sub_ = self._type_mro(b, _depth + 1)
            if sub_ is None:
                return None
            out.extend(sub_)
        seen_, lin_ = set(), []
        for x in reversed(out):
            if x not in seen_:
                seen_.add(x)
                lin_.append(x)
        return list(reversed(lin_))

    def _make_namedtuple(self, cls, args, kwargs, node):
        n_ = len(cls.fields)
        if len(args) > n_:
            raise Raised('TypeError: %s() takes %d positional arguments but %d were given' % (cls.tname, n_, len(args)), getattr(node, 'lineno', 0))
        vals = dict(zip(cls.fields, args))
        for k_, v_ in kwargs.items():
            if k_ not in cls.fields or k_ in vals:
                raise Raised('TypeError: %s() got an unexpected or repeated keyword argument %r' % (cls.tname, k_), getattr(node, 'lineno', 0))
            vals[k_] = v_
        first_default = n_ - len(cls.defaults)
        for i_, f_ in enumerate(cls.fields):
            if f_ not in vals:
                if i_ >= first_default:
                    vals[f_] = cls.defaults[i_ - first_default]
                else:
                    raise Raised('TypeError: %s() missing required argument %r' % (cls.tname, f_), getattr(node, 'lineno', 0))
        return NamedTupleV(cls, [vals[f_] for f_ in cls.fields])

    def p_namedtuple(self, a, k, n):
        if len(a) < 2 or not isinstance(a[0], Const):
            raise Undecided('namedtuple with a symbolic name')
        spec = a[1]
        if isinstance(spec, Const) and isinstance(spec.v, str):
            fields = spec.v.replace(',', ' ').split()
        else:
            fields = [x.v for x in self.iterate(spec, n) if isinstance(x, Const)]
            if len(fields) != len(self.iterate(spec, n)):
                raise Undecided('namedtuple with symbolic field names')
        defaults = self.iterate(k['defaults'], n) if 'defaults' in k and not (isinstance(k['defaults'], Const) and k['defaults'].v is None) else []
        return NTClassV(a[0].v, fields, defaults)

    def _is_package_class(self, name):
        return any(name in m_.classes for m_ in self.repo.modules.values())

    def _class_attr(self, ci, attr):
        """an attribute defined by an assignment in the class body (of the class or a package base class):
        ``name = property(getter)`` -> ('property', getter function);  ``name = <constant expression>`` -> ('value', V)"""
        seen = set()
        todo = [ci]
        while todo:
            c = todo.pop(0)
            if c is None or id(c) in seen:
                continue
            seen.add(id(c))
            for st_ in c.node.body:
                if isinstance(st_, ast.Assign) and any(isinstance(t_, ast.Name) and t_.id == attr for t_ in st_.targets):
                    v_ = st_.value
                    if isinstance(v_, ast.Call) and isinstance(v_.func, ast.Name) and v_.func.id == 'property' and v_.args \
                            and isinstance(v_.args[0], ast.Name) and v_.args[0].id in c.methods:
                        return 'property', c.methods[v_.args[0].id]
                    if isinstance(v_, ast.Constant):
                        return 'value', Const(v_.value)
                    if getattr(self, 'concrete_context', False) and c.module is not None:
                        # a class-level constant expression: evaluated once, in the module's namespace
                        key_ = ('#classattr', c.module.name, c.name, attr)
                        if key_ not in self._const_cache:
                            self._const_cache[key_] = self.eval(v_, Frame(None, c.module, None))
                        return 'value', self._const_cache[key_]
                    raise Undecided('class attribute %s.%s = %s' % (c.name, attr, src(v_)[:40]))
            for b in c.bases:
                bn = b.split('.')[-1]
                for m_ in self.repo.modules.values():
                    if bn in m_.classes:
                        todo.append(m_.classes[bn])
                        break
        return None

    def _class_level_method(self, t, attr):
        """Cls.attr for a class of the package: an alternative constructor (classmethod, bound to the class) or a static helper"""
        for m_ in self.repo.modules.values():
            ci = m_.classes.get(t.name)
            if ci is None:
                continue
            meth_ = self.find_method(ci, attr)
            if meth_ is None:
                return None
            decos_ = {d_.id for d_ in meth_.node.decorator_list if isinstance(d_, ast.Name)}
            if 'classmethod' in decos_:
                return PartialV(FuncV(meth_), [t], {})
            if 'staticmethod' in decos_:
                return FuncV(meth_)
            return None
        return None

    def find_method(self, ci, name):
        """method ``name`` of class ``ci`` or of its base classes inside the package (depth-first, left to right)"""
        seen = set()
        todo = [ci]
        while todo:
            c = todo.pop(0)
            if c is None or id(c) in seen:
                continue
            seen.add(id(c))
            if name in c.methods:
                return c.methods[name]
            for b in c.bases:
                bn = b.split('.')[-1]
                for m_ in self.repo.modules.values():
                    if bn in m_.classes:
                        todo.append(m_.classes[bn])
                        break
        return None

    def construct(self, t, args, kwargs, node):
        name = t.name
        if name in DOC_CLASSES and not getattr(self, 'concrete_docs', False):
            ci = self.repo.module('doctypes').classes.get(name)
            params = []
            if ci is not None and ci.methods.get('__init__') is not None:
                params = [p for p in ci.methods['__init__'].params if p != 'self']
            bound = dict(zip(params, args))
            bound.update(kwargs)
            return DocV(self.mk_doc(name, bound, node))
        concrete = getattr(self, 'concrete_classes', None) or ()
        if name == 'CommentAnnotation' and name not in concrete:
            return AnnotV(('comment', _prov(args[0])))
        if name in self._wrapper_classes() and name not in concrete:
            return Sym('%s(%s)' % (name, ','.join(_prov(a) for a in args)))
        if name == 'PrettyContext' and not getattr(self, 'concrete_context', False):
            if args:
                # positional arguments are bound the way the class's own __init__ names them
                ci_ = self.repo.module('prettyprinter').classes.get('PrettyContext')
                init_ = self.find_method(ci_, '__init__') if ci_ is not None else None
                if init_ is None or len(args) > len(init_.params) - 1:
                    raise Undecided('positional construction of PrettyContext cannot be bound')
                kwargs = dict(kwargs)
                for p_, a_ in zip([p for p in init_.params if p != 'self'], args):
                    kwargs[p_] = a_
            return CtxV('ctx', 0, kwargs.get('multiline_strategy'), {k: v for k, v in kwargs.items()})
        if name == 'PrettyContext' or (getattr(self, 'concrete_classes', None) and name in self.concrete_classes) or \
                (getattr(self, 'concrete_context', False) and name not in DOC_CLASSES and name != 'CommentAnnotation'
                 and name not in self._wrapper_classes() and self._is_package_class(name)):
            ci = None
            for m_ in self.repo.modules.values():
                if name in m_.classes:
                    ci = m_.classes[name]
            if ci is None:
                raise Undecided('class %s not found' % name)
            obj = ObjV(ci)
            init = self.find_method(ci, '__init__')
            if init is not None:
                self.call_function(FuncV(init), [obj] + list(args), dict(kwargs), node)
            return obj
        if name == 'object' and not args and not kwargs:
            return OpaqueV()
        if getattr(self, 'concrete_context', False):
            import builtins as _bi
            cls_ = getattr(_bi, name, None)
            if isinstance(cls_, type) and issubclass(cls_, BaseException):
                return ExcV('%s(%s)' % (name, ', '.join(_prov(a_) for a_ in args)))
        if name in ('list', 'tuple'):
            if not args:
                return ListV([]) if name == 'list' else TupleV([])
            if isinstance(args[0], (Sym, SymStr)) or (isinstance(args[0], ValueV) and args[0].elems is None):
                return Sym('%s(%s)' % (name, _prov(args[0])))
            items = self.iterate(args[0], node)
            return ListV(items) if name == 'list' else TupleV(items)
        if name == 'bool':
            return Const(self.truth(args[0], node)) if args else FALSE
        if name == 'type':
            return self.type_of(args[0])
        if name in ('str', 'repr') and getattr(self, 'concrete_context', False) and len(args) == 1 and isinstance(args[0], Const) \
                and isinstance(args[0].v, (str, bytes, int, float, bool, type(None))):
            return Const(str(args[0].v) if name == 'str' else repr(args[0].v))
        if name in ('str', 'repr') and getattr(self, 'concrete_context', False) and len(args) == 1 and isinstance(args[0], (ListV, TupleV, DictV, SetV)):
            try:
                return Const(repr(_plain(args[0])))
            except _NotPlain:
                pass
        if name in ('str', 'repr'):
            return SymStr('%s(%s)' % (name, _prov(args[0])) if args else "''")
        if name == 'set' and getattr(self, 'concrete_context', False):
            if not args:
                return SetV([])
            return SetV(self.iterate(args[0], node))
        if name in ('dict', 'OrderedDict', 'defaultdict') and getattr(self, 'concrete_context', False) and not (name == 'defaultdict' and args):
            # a new mapping: copy of a mapping / pairs of an iterable, then the keyword items
            d_ = DictV([])
            if args:
                if isinstance(args[0], DictV):
                    for k_, v_ in args[0].items:
                        d_.set(k_, v_)
                elif isinstance(args[0], (Sym, SymStr)) or (isinstance(args[0], ValueV) and args[0].elems is None):
                    return Sym('%s(%s)' % (name, _prov(args[0])))
                else:
                    for pair_ in self.iterate(args[0], node):
                        kv_ = self.iterate(pair_, node)
                        if len(kv_) != 2:
                            raise Raised('ValueError: dictionary update sequence element has length %d; 2 is required' % len(kv_), getattr(node, 'lineno', 0))
                        d_.set(kv_[0], kv_[1])
            for k_, v_ in kwargs.items():
                if k_.startswith('**'):
                    raise Undecided('dict(**symbolic)')
                d_.set(Const(k_), v_)
            return d_
        if name == 'frozenset' and getattr(self, 'concrete_context', False):
            return SetV(self.iterate(args[0], node)) if args else SetV([])
        if name in ('dict', 'OrderedDict', 'set', 'frozenset'):
            if not args:
                return TupleV([]) if not getattr(self, 'concrete_context', False) else DictV([])
            return args[0]
        if name in ('bytes', 'bytearray') and not kwargs and len(args) <= 1:
            # bytes() / bytes(n) / bytes(iterable of ints) / bytes(b'...') on constants: as the library defines it (module-level tables
            # are built this way, so not only in concrete mode)
            try:
                if not args:
                    return Const(b'')
                if isinstance(args[0], Const) and isinstance(args[0].v, (bytes, int)) and not isinstance(args[0].v, bool):
                    return Const(bytes(args[0].v))
                if isinstance(args[0], (ListV, TupleV, IterV)) or (isinstance(args[0], Const) and isinstance(args[0].v, (tuple, list, range))):
                    peek_ = list(args[0].items[args[0].pos:]) if isinstance(args[0], IterV) else (list(args[0].items) if not isinstance(args[0], Const) else None)
                    if peek_ is None or all(isinstance(x, Const) and isinstance(x.v, int) for x in peek_):
                        items_ = self.iterate(args[0], node)
                        return Const(bytes([x.v for x in items_]))
            except (ValueError, TypeError, OverflowError) as e:
                raise Raised('%s: %s' % (type(e).__name__, e), getattr(node, 'lineno', 0))
            return Sym('%s(%s)' % (name, ','.join(_prov(a) for a in args)))
        if name in ('int', 'float'):
            if getattr(self, 'concrete_context', False) and len(args) == 1 and isinstance(args[0], Const) and not kwargs:
                try:
                    return Const((int if name == 'int' else float)(args[0].v))
                except (ValueError, TypeError) as e:
                    raise Raised('%s: %s' % (type(e).__name__, e), getattr(node, 'lineno', 0))
            return Sym('%s(%s)' % (name, ','.join(_prov(a) for a in args)))
        if name not in DOC_CLASSES and not self.repo_has_class(name):
            # a foreign class (datetime.timezone, ...): opaque value
            return Sym('%s(%s)' % (name, ','.join(_prov(a) for a in args)))
        raise Undecided('construction of %s (line %s)' % (name, getattr(node, 'lineno', '?')))

    def repo_has_class(self, name):
        return any(name in m.classes for m in self.repo.modules.values())

    def type_of(self, v):
        if isinstance(v, ExcV):
            import re as _re
            m_ = _re.match(r'(\w+)', v.what or '')
            return TypeV(m_.group(1) if m_ else 'Exception')
        if isinstance(v, ObjV):
            if '__class__' in v.attrs:
                return v.attrs['__class__']
            return TypeV(v.cls.name)
        if isinstance(v, ValueV):
            return v.type
        if isinstance(v, Const):
            if v.v is None:
                return TypeV('NoneType')
            if v.v is Ellipsis:
                return TypeV('ellipsis')
            return TypeV(type(v.v).__name__)
        if isinstance(v, (ListV,)):
            return TypeV('list')
        if isinstance(v, NamedTupleV):
            return v.cls
        if isinstance(v, TupleV):
            return TypeV('tuple')
        if isinstance(v, SymStr):
            return TypeV('str')
        if isinstance(v, DictV):
            return TypeV('dict')
        if isinstance(v, SetV):
            return TypeV('set')
        return Sym('type(%s)' % _prov(v))

    def as_term(self, v, node=None):
        if isinstance(v, DocV):
            return v.t
        if isinstance(v, Const) and isinstance(v.v, str):
            return D.Text(v.v) if v.v != '' else D.Text('')
        if isinstance(v, SymStr):
            return D.Lit(v.prov)
        if isinstance(v, Sym):
            return D.Lit(v.prov, role='unknown')
        raise Undecided('%r used as a document (line %s)' % (v, getattr(node, 'lineno', '?')))

    def mk_doc(self, cls, b, node):
        at = lambda k: self.as_term(b[k], node)  # noqa
        if cls == 'Concat':
            return D.Cat([self.as_term(x, node) for x in self.iterate(b['docs'], node)])
        if cls == 'Fill':
            return D.Fill([self.as_term(x, node) for x in self.iterate(b['docs'], node)])
        if cls == 'Nest':
            return D.Nest(_prov(b['indent']), at('doc'))
        if cls == 'Group':
            return D.Grp(at('doc'))
        if cls == 'AlwaysBreak':
            return D.AB(at('doc'))
        if cls == 'Annotated':
            a = b['annotation']
            label = a.label if isinstance(a, AnnotV) else _prov(a)
            return D.Ann(label, at('doc'))
        if cls == 'FlatChoice':
            return D.FC(at('when_broken'), at('when_flat'))
        if cls == 'Contextual':
            return D.Ctx(b['fn'])
        if cls == 'Nil':
            return D.NIL
        if cls == 'HardLine':
            return D.HL
        raise Undecided('document class %s' % cls)

    # ---------------------------------------------------------------- primitives
    def call_prim(self, name, args, kwargs, node):
        if name not in self.prims:
            from .astutil import strip_stdlib_prefix
            name = strip_stdlib_prefix(name)
        if name in self.prims:
            r = self.prims[name](self, args, kwargs, node)
            if r is not NotImplemented:
                return r
        h = getattr(self, 'p_' + name.replace('.', '_'), None) if '.' in name and (name.startswith('sys.') or name == 'chain.from_iterable') \
            else getattr(self, 'p_' + name, None)
        if h is None and name in ('OrderedDict', 'dict', 'list', 'tuple', 'set', 'frozenset', 'str', 'int', 'float', 'bool') and getattr(self, 'concrete_context', False):
            return self.construct(TypeV(name), list(args), dict(kwargs), node)
        if h is None and name in ('threading.Lock', 'threading.RLock', 'Lock', 'RLock'):
            # a lock: in the sequential interpretation every acquire succeeds at once and nothing else happens
            self._nlocks = getattr(self, '_nlocks', 0) + 1
            return Sym('threading.Lock()#%d' % self._nlocks, 'lock')
        if h is None and getattr(self, 'concrete_context', False):
            import builtins as _bi
            cls_ = getattr(_bi, name, None)
            if isinstance(cls_, type) and issubclass(cls_, BaseException):
                return ExcV('%s(%s)' % (name, ', '.join(_prov(a_) for a_ in args)))
        if h is None and name.endswith(('.__repr__', '.__str__')) and getattr(self, 'concrete_context', False) and len(args) == 1 \
                and isinstance(args[0], Const) and isinstance(args[0].v, (str, bytes, int, float, bool)):
            import builtins as _b
            base_ = getattr(_b, name.split('.')[0], None)
            if isinstance(base_, type) and isinstance(args[0].v, base_):
                return Const(getattr(base_, name.split('.')[1])(args[0].v))
        if h is None and name.endswith(('.__repr__', '.__str__', '.__format__')):
            return SymStr('%s(%s)' % (name, ','.join(_prov(x) for x in args)), nonempty=True)
        if h is None and name in self.foreign_names:
            # an imported foreign callable / class without a model: opaque result
            return Sym('%s(%s)' % (name, ','.join(_prov(x) for x in args)))
        if h is None and name.startswith('re.') and getattr(self, 'concrete_context', False) and not kwargs \
                and all(isinstance(x, Const) for x in args):
            import re as _re
            fn_ = getattr(_re, name[3:], None)
            if callable(fn_):
                try:
                    return _wrap_py(fn_(*[x.v for x in args]))
                except Exception as e:
                    raise Raised('%s: %s' % (type(e).__name__, e), getattr(node, 'lineno', 0))
        if h is None and name in ('ast.parse', 'ast.literal_eval') and getattr(self, 'concrete_context', False) \
                and args and isinstance(args[0], Const) and isinstance(args[0].v, (str, bytes)):
            kw_ = {k_: v_.v for k_, v_ in kwargs.items() if isinstance(v_, Const)}
            if len(kw_) == len(kwargs) and all(isinstance(x, Const) for x in args):
                try:
                    return _wrap_py(getattr(ast, name[4:])(*[x.v for x in args], **kw_))
                except Exception as e:
                    raise Raised('%s: %s' % (type(e).__name__, e), getattr(node, 'lineno', 0))
        if h is None and getattr(self, 'concrete_context', False) and '.' in name and name.split('.')[0] in ('unicodedata', 'math', 'keyword', 'string') \
                and not kwargs and args:
            # a pure function of the standard library on constants: evaluated by the library itself
            try:
                pargs_ = [_plain(x) for x in args]
            except _NotPlain:
                pargs_ = None
            if pargs_ is not None:
                import importlib as _il
                fn_ = getattr(_il.import_module(name.split('.')[0]), name.split('.', 1)[1], None)
                if callable(fn_):
                    try:
                        return _wrap_py(fn_(*pargs_))
                    except Exception as e:
                        raise Raised('%s: %s' % (type(e).__name__, e), getattr(node, 'lineno', 0))
        if h is None and name.startswith(('math.', 're.')):
            return Sym('%s(%s)' % (name, ','.join(_prov(x) for x in args)))
        if h is None:
            raise Undecided('call of unknown function %s (line %s)' % (name, getattr(node, 'lineno', '?')))
        return h(args, kwargs, node)

    def p_len(self, a, k, n):
        v = a[0]
        if isinstance(v, (IterV, CycleV)) or (isinstance(v, ListV) and getattr(v, 'lazy', False)):
            raise Raised("TypeError: object of type 'generator' has no len()", getattr(n, 'lineno', 0))
        if isinstance(v, (ListV, TupleV, SetV, DictV)):
            return Const(len(v.items))
        if isinstance(v, ValueV) and v.elems is not None:
            return Const(len(v.elems))
        if isinstance(v, Const) and isinstance(v.v, (str, bytes, tuple)):
            return Const(len(v.v))
        return Sym('len(%s)' % _prov(v), 'int')

    def p_isinstance(self, a, k, n):
        v, t = a
        types = t.items if isinstance(t, TupleV) else [t]
        names = [x.name for x in types if isinstance(x, (TypeV, Prim))]
        if len(names) != len(types) and not (isinstance(v, ObjV) and all(isinstance(x, (TypeV, Prim, ObjV)) for x in types)):
            raise Undecided('isinstance against %r' % (t,))
        if isinstance(v, DocV):
            kind = {'Ann': 'Annotated', 'Cat': 'Concat', 'Grp': 'Group', 'AB': 'AlwaysBreak', 'Nest': 'Nest',
                    'FC': 'FlatChoice', 'Fill': 'Fill', 'Ctx': 'Contextual'}.get(v.t.kind)
            if isinstance(v.t, D.Sub):
                if 'Annotated' in names:
                    c = v.t.commented
                    if c is None:
                        c = self.refine.get(('commented', v.t.prov))
                    if c is None:
                        c = self.decide('commented(%s)' % v.t.prov)
                        self.refine[('commented', v.t.prov)] = c
                    return Const(bool(c))
                return Const('Doc' in names)
            return Const(kind in names or 'Doc' in names)
        if isinstance(v, AnnotV):
            is_c = isinstance(v.label, tuple) and v.label[0] == 'comment'
            return Const(('CommentAnnotation' in names and is_c) or ('Token' in names and not is_c))
        if isinstance(v, ValueV):
            return Const(v.type.base in names or v.type.name in names or 'object' in names)
        if isinstance(v, ExcV):
            import builtins as _b
            import re as _re
            m_ = _re.match(r'(\w+)', v.what or '')
            cls_ = getattr(_b, m_.group(1), None) if m_ else None
            others = [getattr(_b, n_, None) for n_ in names]
            if isinstance(cls_, type) and all(isinstance(o_, type) for o_ in others):
                return Const(any(issubclass(cls_, o_) for o_ in others))
            return Const(self.decide('isinstance(%s, %s)' % (_prov(v), '|'.join(sorted(names)))))
        if isinstance(v, ObjV) and isinstance(v.attrs.get('__class__'), ObjV) and '__mro__' in v.attrs['__class__'].attrs:
            # an instance of a modelled class: the model's own MRO decides
            mro_names = set()
            for c_ in v.attrs['__class__'].attrs['__mro__'].items:
                if isinstance(c_, TypeV):
                    mro_names.add(c_.name)
                elif isinstance(c_, ObjV) and isinstance(c_.attrs.get('__name__'), Const):
                    mro_names.add(c_.attrs['__name__'].v)
            for t_ in types:
                if isinstance(t_, ObjV) and any(t_ is c_ for c_ in v.attrs['__class__'].attrs['__mro__'].items):
                    return Const(True)
            return Const(bool(mro_names & set(names)))
        if isinstance(v, ObjV) and isinstance(v.attrs.get('__class__'), TypeV):
            # a model object standing for an instance of a named type (its __class__ says which): that type's linearisation decides
            lin_ = self._type_mro(v.attrs['__class__'].name) or [v.attrs['__class__'].name, 'object']
            return Const(bool(set(lin_) & set(names)))
        if isinstance(v, ObjV):
            seen, todo = set(), [v.cls.name]
            while todo:
                c = todo.pop()
                if c in seen:
                    continue
                seen.add(c)
                for m_ in self.repo.modules.values():
                    ci = m_.classes.get(c)
                    if ci is not None:
                        todo.extend(b.split('.')[-1] for b in ci.bases)
            return Const(bool(seen & set(names)) or 'object' in names)
        if isinstance(v, Const):
            tn = 'NoneType' if v.v is None else type(v.v).__name__
            return Const(tn in names or (tn == 'bool' and 'int' in names) or 'object' in names)
        if isinstance(v, (ListV,)):
            return Const('list' in names or 'object' in names)
        if isinstance(v, TupleV):
            if getattr(self, 'concrete_context', False):
                return Const('tuple' in names or 'object' in names)
            return Const('tuple' in names or 'dict' in names or 'OrderedDict' in names)
        if isinstance(v, DictV):
            return Const('dict' in names or 'object' in names)
        if isinstance(v, SetV):
            return Const('set' in names or 'object' in names)
        if isinstance(v, SymStr):
            return Const('str' in names)
        if isinstance(v, (FuncV, Prim, TypeV)):
            return Const(False)
        return Const(self.decide('isinstance(%s, %s)' % (_prov(v), '|'.join(sorted(names)))))

    def p_callable(self, a, k, n):
        if isinstance(a[0], ObjV) and isinstance(a[0].attrs.get('__callable__'), Const):
            return Const(bool(a[0].attrs['__callable__'].v))
        return Const(isinstance(a[0], (FuncV, Prim, TypeV, PartialV)) or (isinstance(a[0], Sym) and a[0].typ == 'callable'))

    def p_enumerate(self, a, k, n):
        start = a[1] if len(a) > 1 else k.get('start', Const(0))
        if not (isinstance(start, Const) and isinstance(start.v, int)):
            raise Undecided('enumerate with a symbolic start')
        return ListV([TupleV([Const(i), x]) for i, x in enumerate(self.iterate(a[0], n), start.v)], lazy=bool(getattr(self, 'concrete_context', False)))

    def p_sum(self, a, k, n):
        try:
            vals_ = [_plain(x) for x in self.iterate(a[0], n)]
            start_ = _plain(a[1]) if len(a) > 1 else 0
            return _wrap_py(sum(vals_, start_))
        except _NotPlain:
            return Sym('sum(%s)' % _prov(a[0]), 'int')
        except TypeError as e:
            raise Raised('TypeError: %s' % e, getattr(n, 'lineno', 0))

    def p_sys_getrecursionlimit(self, a, k, n):
        return Sym('sys.getrecursionlimit()', 'int')      # an environment quantity: unknown integer

    def p_getrecursionlimit(self, a, k, n):
        return Sym('sys.getrecursionlimit()', 'int')

    def _int_text(self, fname, a, n):
        if len(a) == 1 and isinstance(a[0], Const) and isinstance(a[0].v, int):
            return Const({'hex': hex, 'oct': oct, 'bin': bin}[fname](a[0].v))
        if len(a) == 1 and isinstance(a[0], Const):
            raise Raised("TypeError: '%s' object cannot be interpreted as an integer" % type(a[0].v).__name__, getattr(n, 'lineno', 0))
        return SymStr('%s(%s)' % (fname, ','.join(_prov(x) for x in a)), nonempty=True)

    def p_hex(self, a, k, n):
        return self._int_text('hex', a, n)

    def p_oct(self, a, k, n):
        return self._int_text('oct', a, n)

    def p_bin(self, a, k, n):
        return self._int_text('bin', a, n)

    def p_sys_get_int_max_str_digits(self, a, k, n):
        return Sym('sys.get_int_max_str_digits()', 'int')     # an interpreter setting: unknown integer

    def p_get_int_max_str_digits(self, a, k, n):
        return Sym('sys.get_int_max_str_digits()', 'int')

    def p_sys_getsizeof(self, a, k, n):
        return Sym('sys.getsizeof(%s)' % ','.join(_prov(x) for x in a), 'int')

    def p_range(self, a, k, n):
        if not all(isinstance(x, Const) and isinstance(x.v, int) for x in a) or not 1 <= len(a) <= 3:
            raise Undecided('range over symbolic bounds (line %s)' % getattr(n, 'lineno', '?'))
        r_ = range(*[x.v for x in a])
        if len(r_) > 5000:
            raise Undecided('range of %d elements' % len(r_))
        return ListV([Const(i) for i in r_])

    def p_takewhile(self, a, k, n):
        out = []
        for x in self.iterate(a[1], n):
            if not self.truth(self.call_function(a[0], [x], {}, n), n):
                break
            out.append(x)
        return ListV(out)

    def p_zip(self, a, k, n):
        seqs = []
        for x in a:
            if isinstance(x, Sym) and x.prov.startswith('cycle('):
                seqs.append(None)
            elif isinstance(x, CycleV):
                seqs.append(x)
            else:
                seqs.append(self.iterate(x, n))
        known_ = [len(s) for s in seqs if s is not None and not isinstance(s, CycleV)]
        if not known_:
            if seqs:
                raise Undecided('zip over endless iterators only')
            return ListV([])
        m = min(known_)
        out = []
        cyc_ = {id(s): s.take(m) for s in seqs if isinstance(s, CycleV)}
        for i in range(m):
            out.append(TupleV([cyc_[id(s)][i] if isinstance(s, CycleV) else (s[i] if s is not None else Sym('cycle-item')) for s in seqs]))
        return ListV(out, lazy=bool(getattr(self, "concrete_context", False)))

    def p_reversed(self, a, k, n):
        return ListV(list(reversed(self.iterate(a[0], n))), lazy=bool(getattr(self, 'concrete_context', False)))

    def p_sorted(self, a, k, n):
        if isinstance(a[0], (Sym, SymStr)) or (isinstance(a[0], ValueV) and a[0].elems is None):
            return Sym('sorted(%s)' % _prov(a[0]))
        items = self.iterate(a[0], n)
        if len(items) <= 1:
            return ListV(items)
        if getattr(self, 'concrete_context', False) and isinstance(k, dict) and set(k) <= {'key', 'reverse'}:
            rev_ = k.get('reverse', FALSE)
            keyf_ = k.get('key')
            if isinstance(rev_, Const) and (keyf_ is None or (isinstance(keyf_, Const) and keyf_.v is None) or
                                            isinstance(keyf_, (FuncV, Prim, TypeV, PartialV, BoundV))):
                if keyf_ is not None and not isinstance(keyf_, Const):
                    keys_ = [self.call_function(keyf_, [x], {}, n) for x in items]
                else:
                    keys_ = items

                def plain_(v_):
                    if isinstance(v_, Const):
                        return v_.v
                    if isinstance(v_, TupleV):
                        return tuple(plain_(y_) for y_ in v_.items)
                    if isinstance(v_, ListV) and not getattr(v_, 'lazy', False):
                        return [plain_(y_) for y_ in v_.items]
                    raise Undecided('sort key %r' % (v_,))
                try:
                    pk_ = [plain_(x) for x in keys_]
                    order_ = sorted(range(len(items)), key=lambda i_: pk_[i_], reverse=bool(rev_.v))
                    return ListV([items[i_] for i_ in order_])
                except Undecided:
                    pass
                except TypeError as e:
                    raise Raised('TypeError: %s' % e, getattr(n, 'lineno', 0))
        tag = ','.join(_prov(x) for x in items)
        extra = ';'.join('%s=%s' % (kk, _prov(vv)) for kk, vv in sorted(k.items())) if isinstance(k, dict) else ''
        if extra:
            tag += ';' + extra
        if all(isinstance(x, TupleV) for x in items) and len({len(x.items) for x in items}) == 1:
            ar = len(items[0].items)
            return ListV([TupleV([Sym('sorted%d(%s).%d' % (i, tag, j)) for j in range(ar)]) for i in range(len(items))])
        return ListV([Sym('sorted%d(%s)' % (i, tag)) for i in range(len(items))])

    def p_iter(self, a, k, n):
        if isinstance(a[0], IterV) or (isinstance(a[0], ListV) and getattr(a[0], 'lazy', False)):
            return a[0]         # an iterator is its own iterator
        if isinstance(a[0], (ListV, TupleV, SetV, DictV)):
            return IterV(self.iterate(a[0], n))
        if isinstance(a[0], ValueV) and a[0].elems is not None:
            return IterV(list(a[0].elems))
        return a[0]

    def p_next(self, a, k, n):
        it_ = a[0]
        if isinstance(it_, ListV) and getattr(it_, 'lazy', False):
            # the result of zip / map / filter / enumerate / reversed: an iterator in Python; consumed from the front
            if it_.items:
                return it_.items.pop(0)
            if len(a) > 1:
                return a[1]
            raise Raised('StopIteration', getattr(n, 'lineno', 0))
        if isinstance(it_, CycleV):
            return it_.take(1)[0]
        if isinstance(it_, IterV):
            if it_.pos < len(it_.items):
                it_.pos += 1
                return it_.items[it_.pos - 1]
            if len(a) > 1:
                return a[1]
            raise Raised('StopIteration', getattr(n, 'lineno', 0))
        raise Undecided('next() of %r (line %s)' % (it_, getattr(n, 'lineno', '?')))

    def p_chain(self, a, k, n):
        out = []
        for x in a:
            out.extend(self.iterate(x, n))
        return ListV(out, lazy=True)

    def p_any(self, a, k, n):
        return Const(any(self.truth(x, n) for x in self.iterate(a[0], n)))

    def p_all(self, a, k, n):
        return Const(all(self.truth(x, n) for x in self.iterate(a[0], n)))

    def p_take(self, a, k, n):
        cnt = a[0]
        if isinstance(cnt, Const) and isinstance(cnt.v, int) and not isinstance(cnt.v, bool):
            src_ = a[1]
            if isinstance(src_, IterV) or (isinstance(src_, ListV) and getattr(src_, 'lazy', False)):
                avail = src_.items[src_.pos:] if isinstance(src_, IterV) else list(src_.items)
                used = min(len(avail), max(cnt.v, 0))
                if isinstance(src_, IterV):
                    src_.pos += used
                else:
                    del src_.items[:used]
                return ListV(avail[:used], lazy=True)
            return ListV(self.iterate(src_, n)[:max(cnt.v, 0)], lazy=True)
        items = self.iterate(a[1], n)
        if isinstance(cnt, Sym) and items and not (isinstance(cnt, Const)):
            # an unknown count and known items: either everything is taken or the tail is cut - the same fact a printer's own test
            # "len(value) > limit" decides; a cut is represented by dropping the last item
            if self.decide('%s < %d' % (_prov(cnt), len(items))):
                return ListV(items[:-1], lazy=True)
        return ListV(items, lazy=True)

    def p_ChainMap(self, a, k, n):
        if k or not all(isinstance(x, DictV) for x in a):
            raise Undecided('ChainMap(%s)' % ','.join(_prov(x) for x in a))
        return ChainMapV(list(a))

    def p_StringIO(self, a, k, n):
        if not getattr(self, 'concrete_context', False) or k or len(a) > 1:
            return Sym('StringIO()')
        if a and not (isinstance(a[0], Const) and a[0].v in ('', None)):
            return StringIOV(a[0])
        return StringIOV()

    def p_islice(self, a, k, n):
        if not getattr(self, 'concrete_context', False):
            if len(a) == 2:
                return self.p_take([a[1], a[0]], k, n)      # islice(xs, stop): everything, or - on a path of its own - a cut tail
            return ListV(self.iterate(a[0], n))
        bounds = [x.v if isinstance(x, Const) else Ellipsis for x in a[1:]]
        if Ellipsis in bounds or not 1 <= len(bounds) <= 3 or any(b is not None and not isinstance(b, int) for b in bounds):
            raise Undecided('islice with symbolic bounds (line %s)' % getattr(n, 'lineno', '?'))
        sl = slice(*bounds)
        if isinstance(a[0], CycleV):
            if sl.stop is None:
                raise Undecided('islice of an endless iterator without a stop')
            return ListV(a[0].take(sl.stop)[sl])
        src_ = a[0]
        if isinstance(src_, IterV) or (isinstance(src_, ListV) and getattr(src_, 'lazy', False)):
            # a one-shot source gives up only what islice reads: the first ``stop`` elements; the rest stays for the next reader
            avail = src_.items[src_.pos:] if isinstance(src_, IterV) else list(src_.items)
            used = len(avail) if sl.stop is None else min(len(avail), max(sl.stop, 0))
            if isinstance(src_, IterV):
                src_.pos += used
            else:
                del src_.items[:used]
            return ListV(avail[:used][sl])
        items = self.iterate(a[0], n)
        return ListV(items[sl])

    def p_intersperse(self, a, k, n):
        items = self.iterate(a[1], n)
        out = []
        for i, x in enumerate(items):
            if i:
                out.append(a[0])
            out.append(x)
        return ListV(out, lazy=True)

    def p_identity(self, a, k, n):
        return a[0]

    def p_id(self, a, k, n):
        return Sym('id(%s)' % _prov(a[0]), 'int')

    def p_repr(self, a, k, n):
        if getattr(self, 'concrete_context', False):
            try:
                return Const(repr(_plain(a[0])))
            except _NotPlain:
                pass
        return SymStr('repr(%s)' % _prov(a[0]), nonempty=True)

    def p_min(self, a, k, n):
        if getattr(self, 'concrete_context', False) and len(a) == 1 and not isinstance(a[0], (Sym, SymStr)) \
                and not (isinstance(a[0], Const) and not isinstance(a[0].v, (str, bytes, tuple))):
            items_ = self.iterate(a[0], n)
            keyf_ = k.get('key') if isinstance(k, dict) else None
            if not items_:
                if isinstance(k, dict) and 'default' in k:
                    return k['default']
                raise Raised('ValueError: min() arg is an empty sequence', getattr(n, 'lineno', 0))
            try:
                ks_ = [_plain(self.call_function(keyf_, [x], {}, n)) if keyf_ is not None else _plain(x) for x in items_]
                best_ = min(range(len(items_)), key=lambda i_: ks_[i_])
                return items_[best_]
            except _NotPlain:
                pass
            except TypeError as e:
                raise Raised('TypeError: ' + str(e), getattr(n, 'lineno', 0))
        if all(isinstance(x, Const) for x in a):
            try:
                return Const(min(x.v for x in a))
            except TypeError as e:
                raise Raised('TypeError: %s' % e, getattr(n, 'lineno', 0))
        return Sym('min(%s)' % ','.join(_prov(x) for x in a), 'int')

    def p_round(self, a, k, n):
        if all(isinstance(x, Const) for x in a) and not k:
            try:
                return Const(round(*[x.v for x in a]))
            except (TypeError, ValueError, OverflowError) as e:
                raise Raised('%s: %s' % (type(e).__name__, e), getattr(n, 'lineno', 0))
        return Sym('round(%s)' % ','.join(_prov(x) for x in a), 'int')

    def p_copy(self, a, k, n):
        v = a[0]
        if isinstance(v, ListV):
            return ListV(list(v.items))
        if isinstance(v, DictV):
            return DictV(list(v.items))
        if isinstance(v, SetV):
            return SetV(list(v.items))
        if isinstance(v, (Const, TupleV)):
            return v
        raise Undecided('copy of %r' % (v,))

    def p_max(self, a, k, n):
        if getattr(self, 'concrete_context', False) and len(a) == 1 and not isinstance(a[0], (Sym, SymStr)) \
                and not (isinstance(a[0], Const) and not isinstance(a[0].v, (str, bytes, tuple))):
            items_ = self.iterate(a[0], n)
            keyf_ = k.get('key') if isinstance(k, dict) else None
            if not items_:
                if isinstance(k, dict) and 'default' in k:
                    return k['default']
                raise Raised('ValueError: max() arg is an empty sequence', getattr(n, 'lineno', 0))
            try:
                ks_ = [_plain(self.call_function(keyf_, [x], {}, n)) if keyf_ is not None else _plain(x) for x in items_]
                best_ = max(range(len(items_)), key=lambda i_: ks_[i_])
                return items_[best_]
            except _NotPlain:
                pass
            except TypeError as e:
                raise Raised('TypeError: ' + str(e), getattr(n, 'lineno', 0))
        if all(isinstance(x, Const) for x in a):
            try:
                return Const(max(x.v for x in a))
            except TypeError as e:
                raise Raised('TypeError: %s' % e, getattr(n, 'lineno', 0))
        return Sym('max(%s)' % ','.join(_prov(x) for x in a), 'int')

    def p_cycle(self, a, k, n):
        if getattr(self, 'concrete_context', False) and isinstance(a[0], (ListV, TupleV)) and a[0].items:
            return CycleV(a[0].items)
        return Sym('cycle(%s)' % _prov(a[0]))

    def p_getattr(self, a, k, n):
        if isinstance(a[1], Const):
            if len(a) > 2:
                try:
                    return self.getattr(a[0], a[1].v, n)
                except Raised as e:
                    if e.what.startswith('AttributeError'):
                        return a[2]
                    raise
            return self.getattr(a[0], a[1].v, n)
        return Sym('getattr(%s,%s)' % (_prov(a[0]), _prov(a[1])))

    def p_hasattr(self, a, k, n):
        if isinstance(a[0], ObjV) and isinstance(a[1], Const) and getattr(self, 'concrete_context', False):
            return Const(a[1].v in a[0].attrs or (a[0].cls.module is not None and self.find_method(a[0].cls, a[1].v) is not None))
        return Const(self.decide('hasattr(%s,%s)' % (_prov(a[0]), _prov(a[1]))))

    def p_validate_doc(self, a, k, n):
        return a[0]

    def p_filter(self, a, k, n):
        if getattr(self, 'concrete_context', False):
            fn = a[0]
            keep = []
            for x in self.iterate(a[1], n):
                v = x if (isinstance(fn, Const) and fn.v is None) else self.call_function(fn, [x], {}, n)
                if self.truth(v, n):
                    keep.append(x)
            return ListV(keep, lazy=True)
        return ListV([x for x in self.iterate(a[1], n)])

    def p_map(self, a, k, n):
        if len(a) > 2:
            # map(f, xs, ys, ...): f applied to the items taken in parallel, as long as the shortest lasts
            rows = self.p_zip(list(a[1:]), {}, n)
            return ListV([self.call_function(a[0], list(r.items), {}, n) for r in rows.items], lazy=bool(getattr(self, 'concrete_context', False)))
        return ListV([self.call_function(a[0], [x], {}, n) for x in self.iterate(a[1], n)], lazy=bool(getattr(self, 'concrete_context', False)))

    def p_chain_from_iterable(self, a, k, n):
        out = []
        for x in self.iterate(a[0], n):
            out.extend(self.iterate(x, n))
        return ListV(out, lazy=True)

    def p_warn(self, a, k, n):
        return NONE

    def p_MappingProxyType(self, a, k, n):
        return a[0]

    def p_divmod(self, a, k, n):
        if isinstance(a[0], Const) and isinstance(a[1], Const) and isinstance(a[0].v, (int, float)) and isinstance(a[1].v, (int, float)):
            try:
                q_, r_ = divmod(a[0].v, a[1].v)
            except ZeroDivisionError as e:
                raise Raised('ZeroDivisionError: %s' % e, getattr(n, 'lineno', 0))
            return TupleV([Const(q_), Const(r_)])
        return TupleV([Sym('(%s//%s)' % (_prov(a[0]), _prov(a[1])), 'int'), Sym('(%s%%%s)' % (_prov(a[0]), _prov(a[1])), 'int')])

    def p_abs(self, a, k, n):
        v = a[0]
        if isinstance(v, Const) and isinstance(v.v, (int, float)):
            return Const(abs(v.v))
        if isinstance(v, ValueV):
            return ValueV('abs(%s)' % v.prov, v.type, v.elems, v.extra)
        return Sym('abs(%s)' % _prov(v))

    def p_dropwhile(self, a, k, n):
        items = self.iterate(a[1], n)
        i = 0
        while i < len(items) and self.truth(self.call_function(a[0], [items[i]], {}, n), n):
            i += 1
        return ListV(items[i:])

    def p_partial(self, a, k, n):
        if getattr(self, 'concrete_partial', False) or getattr(self, 'concrete_context', False):
            return PartialV(a[0], list(a[1:]), dict(k))
        return Sym('partial(%s)' % ','.join(_prov(x) for x in a))


_METHODS = {'append', 'extend', 'reverse', 'insert', 'copy', 'sort', 'update', 'add', 'issubset', 'format', 'join', 'keys', 'items', 'values', 'pop', 'splitlines', 'split',
            'count', 'find', 'replace', 'get', 'startswith', 'endswith', 'lower', 'upper', 'strip', 'rstrip', 'index'}


_GEN_CACHE = {}


def _is_generator(fn_node):
    r = _GEN_CACHE.get(id(fn_node))
    if r is None or r[0] is not fn_node:
        r = (fn_node, _is_generator_uncached(fn_node))
        _GEN_CACHE[id(fn_node)] = r
    return r[1]


def _is_generator_uncached(fn_node):
    stack = list(fn_node.body)
    while stack:
        n = stack.pop()
        if isinstance(n, (ast.Yield, ast.YieldFrom)):
            return True
        if isinstance(n, (ast.FunctionDef, ast.Lambda, ast.ClassDef)):
            continue
        stack.extend(ast.iter_child_nodes(n))
    return False


def _load(target):
    import copy
    t = copy.deepcopy(target)
    for n in ast.walk(t):
        if hasattr(n, 'ctx'):
            n.ctx = ast.Load()
    return t


def _prov(v):
    if isinstance(v, Const):
        return repr(v.v)
    if isinstance(v, (Sym, SymStr)):
        return v.prov
    if isinstance(v, ValueV):
        return v.prov
    if isinstance(v, CtxV):
        return v.describe()
    if isinstance(v, DocV):
        return D.show(v.t)
    if isinstance(v, NamedListV):
        return v.label
    if isinstance(v, (ListV, TupleV)):
        return '[' + ','.join(_prov(x) for x in v.items) + ']'
    if isinstance(v, TypeV):
        return v.name
    if isinstance(v, FuncV):
        return v.fn.name if v.fn else 'lambda'
    if isinstance(v, Prim):
        return v.name
    if isinstance(v, ExcV):
        return 'exc<%s>' % v.what.split(':')[0].split('(')[0]
    if isinstance(v, AnnotV):
        return str(v.label)
    return repr(v)


prov = _prov
