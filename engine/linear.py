"""E7 -- canonical linear forms with min/max (A6).

Grammar: integer literals, names / attribute chains, ``+``, unary and binary ``-``, ``*`` by a
literal, ``min(...)``, ``max(...)`` and opaque atoms (``len(e)``, ``round(e)``, other calls)
compared by their own normalised text.  Equality of normal forms is the oracle; anything
outside the grammar raises ``NotLinear`` (the caller reports *undecided*).
"""
import ast
from fractions import Fraction

from .astutil import src, dotted
from .switch import inline


class NotLinear(Exception):
    pass


class Lin:
    """sum(coef * atom) + const"""
    __slots__ = ('terms', 'const')

    def __init__(self, terms=None, const=0):
        self.terms = {k: v for k, v in (terms or {}).items() if v != 0}
        self.const = const

    def key(self):
        return ('lin', tuple(sorted(self.terms.items())), self.const)

    def __eq__(self, other):
        return isinstance(other, (Lin, MinMax)) and self.key() == other.key()

    def __hash__(self):
        return hash(self.key())

    def add(self, o):
        if isinstance(o, MinMax):
            return o.add(self)
        t = dict(self.terms)
        for k, v in o.terms.items():
            t[k] = t.get(k, 0) + v
        return Lin(t, self.const + o.const)

    def scale(self, c):
        return Lin({k: v * c for k, v in self.terms.items()}, self.const * c)

    def is_const(self):
        return not self.terms

    def text(self):
        parts = []
        for k, v in sorted(self.terms.items()):
            if v == 1:
                parts.append('+' + k)
            elif v == -1:
                parts.append('-' + k)
            else:
                parts.append('%+g*%s' % (v, k))
        if self.const or not parts:
            parts.append('%+g' % self.const)
        s = ' '.join(parts)
        return s[1:] if s.startswith('+') else s

    def __repr__(self):
        return self.text()


class MinMax:
    __slots__ = ('kind', 'items')

    def __init__(self, kind, items):
        flat = []
        for it in items:
            if isinstance(it, MinMax) and it.kind == kind:
                flat.extend(it.items)
            else:
                flat.append(it)
        # drop duplicates and constants dominated by another constant
        uniq = {}
        for it in flat:
            uniq[it.key()] = it
        consts = [it for it in uniq.values() if isinstance(it, Lin) and it.is_const()]
        if len(consts) > 1:
            keep = (min if kind == 'min' else max)(consts, key=lambda l: l.const)
            for c in consts:
                if c is not keep:
                    uniq.pop(c.key())
        self.kind = kind
        self.items = tuple(sorted(uniq.values(), key=lambda i: repr(i.key())))

    def key(self):
        return (self.kind, tuple(i.key() for i in self.items))

    def __eq__(self, other):
        return isinstance(other, (Lin, MinMax)) and self.key() == other.key()

    def __hash__(self):
        return hash(self.key())

    def add(self, o):
        if isinstance(o, Lin):
            return mk(self.kind, [i.add(o) for i in self.items])
        if o.kind == self.kind:
            return mk(self.kind, [a.add(b) for a in self.items for b in o.items])
        raise NotLinear('sum of min and max')

    def scale(self, c):
        if c >= 0:
            return mk(self.kind, [i.scale(c) for i in self.items])
        return mk('max' if self.kind == 'min' else 'min', [i.scale(c) for i in self.items])

    def text(self):
        return '%s{%s}' % (self.kind, ', '.join(i.text() for i in self.items))

    def __repr__(self):
        return self.text()


def mk(kind, items):
    m = MinMax(kind, items)
    if len(m.items) == 1:
        return m.items[0]
    return m


def atom(name):
    return Lin({name: 1})


def const(c):
    return Lin({}, c)


_RESOLVER = [None]


def set_helper_resolver(fn):
    """fn(name) -> ast.FunctionDef of a pure package helper (or None); calls to such helpers whose body is
    straight-line assignments ending in one ``return`` are inlined before the form is taken"""
    _RESOLVER[0] = fn


def _inline_helper(call):
    res = _RESOLVER[0]
    if res is None or not isinstance(call.func, ast.Name):
        return None
    fd = res(call.func.id)
    if fd is None:
        return None
    body = [s_ for s_ in fd.body if not (isinstance(s_, ast.Expr) and isinstance(s_.value, ast.Constant))]
    if not body or not isinstance(body[-1], ast.Return) or body[-1].value is None:
        return None
    env = {}
    params = [a.arg for a in fd.args.posonlyargs + fd.args.args + fd.args.kwonlyargs]
    for i, a in enumerate(call.args):
        if i < len(params):
            env[params[i]] = a
    for k in call.keywords:
        if k.arg:
            env[k.arg] = k.value
    if set(params) - set(env):
        return None
    for st in body[:-1]:
        if isinstance(st, ast.Assign) and len(st.targets) == 1 and isinstance(st.targets[0], ast.Name):
            env[st.targets[0].id] = inline(st.value, env)
        else:
            return None
    return inline(body[-1].value, env)


def form(expr, env=None, atoms=None):
    """canonical form of an ast expression.  ``env``: single-assignment temporaries to
    inline; ``atoms``: optional renaming of opaque atom texts (alpha-normalisation)."""
    if env:
        expr = inline(expr, env)
    return _form(expr, atoms or {})


def _atom_text(node, atoms):
    t = src(node)
    return atoms.get(t, t)


def _form(n, atoms):
    if isinstance(n, ast.Constant):
        if isinstance(n.value, bool) or not isinstance(n.value, (int, float)):
            raise NotLinear('non-numeric constant %r' % (n.value,))
        return const(n.value)
    if isinstance(n, (ast.Name, ast.Attribute)):
        d = dotted(n)
        if d is None:
            return atom(_atom_text(n, atoms))
        return atom(atoms.get(d, d))
    if isinstance(n, ast.UnaryOp) and isinstance(n.op, ast.USub):
        return _form(n.operand, atoms).scale(-1)
    if isinstance(n, ast.UnaryOp) and isinstance(n.op, ast.UAdd):
        return _form(n.operand, atoms)
    if isinstance(n, ast.BinOp):
        if isinstance(n.op, ast.Add):
            return _form(n.left, atoms).add(_form(n.right, atoms))
        if isinstance(n.op, ast.Sub):
            return _form(n.left, atoms).add(_form(n.right, atoms).scale(-1))
        if isinstance(n.op, ast.Mult):
            l, r = _form(n.left, atoms), _form(n.right, atoms)
            if isinstance(l, Lin) and l.is_const():
                return r.scale(l.const)
            if isinstance(r, Lin) and r.is_const():
                return l.scale(r.const)
            # product of two non-constants: opaque atom with sorted operands
            ops = sorted(_sub(o, atoms) for o in (n.left, n.right))
            return atom('(%s * %s)' % tuple(ops))
        if isinstance(n.op, ast.Div):
            return atom('(%s / %s)' % (_sub(n.left, atoms), _sub(n.right, atoms)))
        raise NotLinear('operator %s' % type(n.op).__name__)
    if isinstance(n, ast.Call) and isinstance(n.func, ast.Name) and n.func.id in ('min', 'max') \
            and not n.keywords and len(n.args) >= 2:
        return mk(n.func.id, [_form(a, atoms) for a in n.args])
    if isinstance(n, ast.Call):
        inl = _inline_helper(n)
        if inl is not None:
            return _form(inl, atoms)
        # opaque atom; arguments that are themselves linear are canonicalised inside
        fn = dotted(n.func) or src(n.func)
        args = [_sub(a, atoms) for a in n.args]
        kws = ['%s=%s' % (k.arg, _sub(k.value, atoms)) for k in n.keywords]
        return atom('%s(%s)' % (fn, ', '.join(args + sorted(kws))))
    if isinstance(n, ast.IfExp):
        raise NotLinear('conditional expression')
    if isinstance(n, ast.Subscript):
        return atom(_atom_text(n, atoms))
    raise NotLinear('expression kind %s' % type(n).__name__)


def _sub(n, atoms):
    try:
        return _form(n, atoms).text()
    except NotLinear:
        return _atom_text(n, atoms)


def compare_form(test, pol=True, env=None, atoms=None):
    """normalise an integer comparison to ``e >= 0`` (returned as the form e) or
    ('eq', e) for e == 0 / ('ne', e); raises NotLinear otherwise"""
    while isinstance(test, ast.UnaryOp) and isinstance(test.op, ast.Not):
        test = test.operand
        pol = not pol
    if not (isinstance(test, ast.Compare) and len(test.ops) == 1):
        raise NotLinear('not a simple comparison: ' + src(test))
    l = form(test.left, env, atoms)
    r = form(test.comparators[0], env, atoms)
    op = type(test.ops[0])
    d = l.add(r.scale(-1))          # l - r
    if op in (ast.Eq, ast.NotEq):
        kind = 'eq' if (op is ast.Eq) == pol else 'ne'
        # orientation-free: make leading coefficient positive
        k1, k2 = d.key(), d.scale(-1).key()
        return (kind, d if repr(k1) <= repr(k2) else d.scale(-1))
    table = {ast.GtE: ('ge', 0), ast.Gt: ('ge', -1), ast.LtE: ('le', 0), ast.Lt: ('le', -1)}
    if op not in table:
        raise NotLinear('operator ' + op.__name__)
    kind, off = table[op]
    if kind == 'ge':      # l - r + off >= 0
        e = d.add(const(off))
    else:                 # r - l + off >= 0
        e = d.scale(-1).add(const(off))
    if not pol:           # not (e >= 0)  <=>  -e - 1 >= 0
        e = e.scale(-1).add(const(-1))
    return ('ge0', e)
