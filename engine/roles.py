"""Private names of the package, found by the *role* they play relative to the public entry points (register_pretty,
is_registered, python_to_sdocs, comment, trailing_comment, get_default_config, ...), not by their spelling: a consistent rename of a
private helper or constant must not change any verdict.  Every role falls back to its historical name; a role that cannot be
found either way is an AnalysisError (exit 2), never a silent pass."""
import ast

from .astutil import call_name, src
from .loader import AnalysisError

_CACHE = {}


def roles(repo):
    key = id(repo)
    if key in _CACHE and _CACHE[key][0] is repo:
        return _CACHE[key][1]
    out = _discover(repo)
    _CACHE.clear()
    _CACHE[key] = (repo, out)
    return out


def name(repo, role):
    v = roles(repo).get(role)
    if v is None:
        raise AnalysisError('cannot identify the %s of the package (renamed beyond recognition?)' % role.replace('_', ' '))
    return v


def _first(it):
    for x in it:
        return x
    return None


def _discover(repo):
    m = repo.module('prettyprinter')
    top = repo.module('')
    out = {}
    rp = m.funcs.get('register_pretty')
    dec = _first(f for q, f in m.funcs.items() if f.parent is rp) if rp is not None else None
    # ---- registry stores (through the decorator of register_pretty)
    if dec is not None:
        for c in ast.walk(dec.node):
            if isinstance(c, ast.Call) and isinstance(c.func, ast.Attribute) and c.func.attr == 'register' and isinstance(c.func.value, ast.Name):
                out.setdefault('dispatch', c.func.value.id)
        module_containers = {n_ for n_, vals in m.assigns.items()
                             if isinstance(vals[-1], (ast.Dict, ast.List)) or (isinstance(vals[-1], ast.Call) and call_name(vals[-1]) in
                                                                               ('dict', 'list', 'OrderedDict', 'WeakKeyDictionary', 'defaultdict'))}
        for s in ast.walk(dec.node):
            if isinstance(s, ast.Assign) and isinstance(s.targets[0], ast.Subscript) and isinstance(s.targets[0].value, ast.Name) \
                    and s.targets[0].value.id in module_containers:
                # D[type] = fn  -> registration by name;   D[predicate] = fn -> predicate store kept as a dict
                keyname = src(s.targets[0].slice)
                if 'pred' in keyname.lower():
                    out.setdefault('predicate_store', s.targets[0].value.id)
                else:
                    out.setdefault('deferred_store', s.targets[0].value.id)
            if isinstance(s, ast.Call) and isinstance(s.func, ast.Attribute) and s.func.attr in ('append', 'insert', 'add') \
                    and isinstance(s.func.value, ast.Name) and s.func.value.id in module_containers:
                out.setdefault('predicate_store', s.func.value.id)
    out.setdefault('dispatch', 'pretty_dispatch' if 'pretty_dispatch' in m.assigns else None)
    out.setdefault('deferred_store', '_DEFERRED_DISPATCH_BY_NAME' if '_DEFERRED_DISPATCH_BY_NAME' in m.assigns else None)
    out.setdefault('predicate_store', '_PREDICATE_REGISTRY' if '_PREDICATE_REGISTRY' in m.assigns else None)
    # ---- the base dispatch: the argument of singledispatch(...) in the assignment of the dispatch object
    d = out.get('dispatch')
    if d and d in m.assigns:
        v = m.assigns[d][-1]
        if isinstance(v, ast.Call) and call_name(v).endswith('singledispatch') and v.args and isinstance(v.args[0], ast.Name):
            out['base_dispatch'] = v.args[0].id
    out.setdefault('base_dispatch', '_BASE_DISPATCH' if '_BASE_DISPATCH' in m.assigns else None)
    # ---- the base printer: the function wrapped in the base dispatch  partial(wrapper, BASE)
    b = out.get('base_dispatch')
    if b and b in m.assigns:
        v = m.assigns[b][-1]
        if isinstance(v, ast.Call) and call_name(v) == 'partial' and len(v.args) == 2 and isinstance(v.args[1], ast.Name):
            out['base_printer'] = v.args[1].id
            out['wrapper'] = src(v.args[0])
    out.setdefault('base_printer', '_repr_pretty' if '_repr_pretty' in m.funcs else None)
    # ---- comment wrappers: what the public functions build
    for pub, role in (('trailing_comment', 'trailing_cls'), ('comment_value', 'commented_cls')):
        f = m.funcs.get(pub)
        if f is not None:
            for r in ast.walk(f.node):
                if isinstance(r, ast.Return) and isinstance(r.value, ast.Call) and isinstance(r.value.func, ast.Name) and r.value.func.id in m.classes:
                    out[role] = r.value.func.id
    if 'commented_cls' not in out:
        f = m.funcs.get('comment')
        if f is not None:
            for c in ast.walk(f.node):
                if isinstance(c, ast.Call) and isinstance(c.func, ast.Name) and c.func.id in m.classes and c.func.id != out.get('trailing_cls'):
                    out['commented_cls'] = c.func.id
    out.setdefault('trailing_cls', '_TrailingCommentedValue' if '_TrailingCommentedValue' in m.classes else None)
    out.setdefault('commented_cls', '_CommentedValue' if '_CommentedValue' in m.classes else None)
    # ---- the warning helper and the recursion marker: through the wrapper
    w = None
    try:
        from . import facts
        w = facts.wrapper_function(repo)
    except AnalysisError:
        w = None
    if w is not None:
        out['wrapper'] = w.name
        seen = [w]
        todo = [w]
        while todo:
            f = todo.pop()
            for c in ast.walk(f.node):
                if isinstance(c, ast.Call) and isinstance(c.func, ast.Name) and c.func.id in m.funcs:
                    callee = m.funcs[c.func.id]
                    # a helper of the wrapper (same leading parameters)
                    if callee not in seen and callee.params[:3] == w.params[:3]:
                        seen.append(callee)
                        todo.append(callee)
                    # called inside an except handler with the caught exception -> the warning helper
                    if any(k.arg == 'exc' for k in c.keywords) or (len(c.args) == 3 and _in_handler(f.node, c)):
                        out.setdefault('warn_helper', c.func.id)
        # the marker: what the wrapper returns when the value is already being visited: return X(value) as first statement under the test
        for f in seen:
            for st in f.node.body[:3]:
                if isinstance(st, ast.If):
                    for r in st.body:
                        if isinstance(r, ast.Return) and isinstance(r.value, ast.Call) and isinstance(r.value.func, ast.Name) and r.value.func.id in m.funcs \
                                and 'visit' in src(st.test):
                            out.setdefault('recursion_marker', r.value.func.id)
                    for r in st.orelse:
                        if isinstance(r, ast.Return) and isinstance(r.value, ast.Call) and isinstance(r.value.func, ast.Name) and r.value.func.id in m.funcs \
                                and 'visit' in src(st.test):
                            out.setdefault('recursion_marker', r.value.func.id)
            # inverted form:  if not visited: ...; return marker(value)
            last = f.node.body[-1] if f.node.body else None
            if isinstance(last, ast.Return) and isinstance(last.value, ast.Call) and isinstance(last.value.func, ast.Name) and last.value.func.id in m.funcs \
                    and len(last.value.args) == 1 and 'recurs' in last.value.func.id.lower():
                out.setdefault('recursion_marker', last.value.func.id)
    out.setdefault('warn_helper', '_warn_about_bad_printer' if '_warn_about_bad_printer' in m.funcs else None)
    out.setdefault('recursion_marker', '_pretty_recursion' if '_pretty_recursion' in m.funcs else _first(n_ for n_ in m.funcs if 'recursion' in n_.lower()))
    # ---- the literal helper of the numeric / string printers: the function that returns  <type parameter>.__repr__(<value parameter>)
    for fname, f in list(m.funcs.items()) + [x for m2 in repo.modules.values() if m2 is not m for x in m2.funcs.items()]:
        if f.parent is not None or len(f.params) != 2:
            continue
        for r in ast.walk(f.node):
            if isinstance(r, ast.Return) and isinstance(r.value, ast.Call) and isinstance(r.value.func, ast.Attribute) \
                    and r.value.func.attr == '__repr__' and isinstance(r.value.func.value, ast.Name) and r.value.func.value.id == f.params[0] \
                    and len(r.value.args) == 1 and isinstance(r.value.args[0], ast.Name) and r.value.args[0].id == f.params[1]:
                out.setdefault('builtin_repr', fname)
    out.setdefault('builtin_repr', '_builtin_repr' if '_builtin_repr' in m.funcs else None)
    # ---- the sort-key class of the dict printer: the class whose __lt__ tries the natural order
    for cname, ci in m.classes.items():
        if '__lt__' in ci.methods and ('sortable' in cname.lower() or any(isinstance(x, ast.Try) for x in ast.walk(ci.methods['__lt__'].node))):
            out['sortable_cls'] = cname
    out.setdefault('sortable_cls', '_AlwaysSortable' if '_AlwaysSortable' in m.classes else None)
    # ---- configuration: the dict get_default_config exposes
    g = top.funcs.get('get_default_config')
    if g is not None:
        for r in ast.walk(g.node):
            if isinstance(r, ast.Return) and r.value is not None:
                for nm in ast.walk(r.value):
                    if isinstance(nm, ast.Name) and nm.id in top.assigns and isinstance(top.assigns[nm.id][0], ast.Dict):
                        out['default_config'] = nm.id
    out.setdefault('default_config', '_default_config' if '_default_config' in top.assigns else None)
    # ---- struct-sequence field-name cache, token table (by shape)
    for n_, vals in m.assigns.items():
        if isinstance(vals[-1], ast.Call) and call_name(vals[-1]) == 'WeakKeyDictionary':
            out.setdefault('cnamedtuple_cache', n_)
    out.setdefault('cnamedtuple_cache', '_cnamedtuple_fieldnames_by_class')
    col = repo.module('color')
    for n_, vals in col.assigns.items():
        v = vals[-1]
        if isinstance(v, ast.Dict) and v.keys and all(k is not None and src(k).startswith('Token.') for k in v.keys):
            out['token_table'] = n_
    out.setdefault('token_table', '_SYNTAX_TOKEN_TO_PYGMENTS_TOKEN')
    return out


def _in_handler(fn_node, call):
    for h in ast.walk(fn_node):
        if isinstance(h, ast.ExceptHandler) and any(x is call for x in ast.walk(h)):
            return True
    return False
