#!/bin/bash
# runs the quick tier of all 20 properties in parallel on /repo; prints one line per property
cd /verif
for i in $(seq -w 1 20); do
  ( /venv/bin/python run.py C$i > /tmp/q_C$i.txt 2>&1; echo "C$i exit=$? $(grep -c 'VIOLATION\|ANALYSIS-ERROR' /tmp/q_C$i.txt)" ) &
done
wait
