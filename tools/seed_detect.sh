#!/bin/bash
# usage: seed_detect.sh <patch.diff> <prop> [more props...]  -- applies the patch to /repo, runs the checks, reverts
P=$1; shift
cd /repo || exit 9
if [ -n "$(git status --porcelain)" ]; then echo "REPO-NOT-CLEAN"; exit 7; fi
if ! git apply --check "$P" 2>/dev/null; then echo "PATCH-DOES-NOT-APPLY $P"; exit 8; fi
git apply "$P"
trap 'git -C /repo checkout -- .' EXIT
trap "" PIPE
for prop in "$@"; do
  out=$(cd /verif && /venv/bin/python run.py $prop --tier quick 2>&1); rc=$?
  echo "== $prop exit=$rc"; echo "$out" | grep -E "VIOLATION|ANALYSIS-ERROR|^  prettyprinter" | cut -c1-400 | head -8
done
git -C /repo checkout -- . 
