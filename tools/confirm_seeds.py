#!/venv/bin/python
"""Confirms every seed under /tmp/seeds/<prop>/<k>/ in a scratch worktree of /repo (outside /repo and /verif):
patch applies, demo fails with it and passes without it, pinned suite still 73/73.  Keeps confirmed seeds as
/verif/seeded/<prop>-<k>/ {patch.diff, demo.py, meta.json}.  Usage: confirm_seeds.py [prop ...]"""
import json, os, shutil, subprocess, sys, glob

BASES = ['HEAD']


def sh(cmd, cwd=None, env=None, timeout=1800):
    p = subprocess.run(cmd, shell=True, cwd=cwd, env=env, capture_output=True, text=True, timeout=timeout)
    return p.returncode, (p.stdout + p.stderr)


def main():
    args = sys.argv[1:]
    root, offset = '/tmp/seeds', 0
    if args and args[0] == '--round5':
        root, offset = '/tmp/seeds5', 12
        args = args[1:]
    if args and args[0] == '--round4':
        root, offset = '/tmp/seeds4', 9
        args = args[1:]
    if args and args[0] == '--round3':
        root, offset = '/tmp/seeds3', 6
        args = args[1:]
    if args and args[0] == '--round2':
        root, offset = '/tmp/seeds2', 3
        args = args[1:]
    props = args
    log = subprocess.run('git -C /repo log --format=%H', shell=True, capture_output=True, text=True).stdout.split()
    for d in sorted(glob.glob(root + '/C*/[0-9]')) + (sorted(glob.glob('/tmp/seeds_ported/*')) if offset == 0 else []):
        parts = d.rstrip('/').split('/')
        if 'seeds_ported' in d:
            prop, k = parts[-1].split('_')
            src_notes = '/tmp/seeds/%s/%s' % (prop, k)
        else:
            prop, k = parts[-2], str(int(parts[-1]) + offset)
            src_notes = d
        if props and prop not in props:
            continue
        out = '/verif/seeded/%s-%s' % (prop, k)
        if os.path.exists(os.path.join(out, 'meta.json')) and 'seeds_ported' not in d:
            continue
        patch = os.path.join(d, 'patch.diff')
        demo = os.path.join(src_notes, 'demo.py')
        if not (os.path.exists(patch) and os.path.exists(demo)):
            print(prop, k, 'incomplete'); continue
        wt = '/tmp/confirm_%s_%s' % (prop, k)
        base_used = None
        for base in log[:30]:
            sh('git -C /repo worktree remove --force %s' % wt)
            rc, o = sh('git -C /repo worktree add -q --detach %s %s' % (wt, base))
            rc, o = sh('git apply --check %s' % patch, cwd=wt)
            if rc == 0:
                base_used = base
                break
        if base_used is None:
            print(prop, k, 'PATCH APPLIES TO NO RECENT COMMIT'); sh('git -C /repo worktree remove --force %s' % wt); continue
        env = dict(os.environ, PYTHONPATH=wt)
        rc0, o0 = sh('/venv/bin/python %s' % demo, cwd=wt, env=env, timeout=900)
        sh('git apply %s' % patch, cwd=wt)
        rc1, o1 = sh('/venv/bin/python %s' % demo, cwd=wt, env=env, timeout=900)
        rcb, ob = sh('JOBS=4 /tmp/seedtools/baseline.sh %s' % wt, timeout=3000)
        rcc, oc = sh('/venv/bin/python -m compileall -q prettyprinter', cwd=wt)
        sh('git -C /repo worktree remove --force %s' % wt)
        ok = rc0 == 0 and rc1 != 0 and rcb == 0 and rcc == 0
        notes = {}
        try:
            notes = json.load(open(os.path.join(src_notes, 'notes.json')))
        except Exception:
            pass
        meta = {
            'property': prop,
            'summary': notes.get('summary', ''),
            'needs_to_manifest': notes.get('needs_to_manifest', ''),
            'files': notes.get('files', []),
            'applies_to_commit': base_used,
            'applies_to_head': base_used == log[0],
            'confirmed': ok,
            'what_was_run': {
                'demo_on_unchanged_tree_exit': rc0,
                'demo_on_changed_tree_exit': rc1,
                'demo_changed_tail': o1.strip().splitlines()[-3:],
                'baseline': ob.strip().splitlines()[:3],
                'compileall_exit': rcc,
                'commands': ['git worktree add --detach <scratch> %s' % base_used[:10], 'PYTHONPATH=<scratch> python demo.py  (before and after git apply patch.diff)',
                             'pytest pinned suite in <scratch> with -n 4 (73 baseline tests)'],
            },
            'ported': 'seeds_ported' in d,
        }
        print(prop, k, 'CONFIRMED' if ok else 'REJECTED', rc0, rc1, rcb, flush=True)
        if ok:
            os.makedirs(out, exist_ok=True)
            shutil.copy(patch, os.path.join(out, 'patch.diff'))
            shutil.copy(demo, os.path.join(out, 'demo.py'))
            json.dump(meta, open(os.path.join(out, 'meta.json'), 'w'), indent=1)
        else:
            os.makedirs('/tmp/seeds_rejected', exist_ok=True)
            json.dump(meta, open('/tmp/seeds_rejected/%s-%s.json' % (prop, k), 'w'), indent=1)


if __name__ == '__main__':
    main()
