#!/venv/bin/python
"""patch_check.py [--props C01,C02] <patch.diff> ...  -- applies each unified diff IN MEMORY (overlay; /repo is not touched) and
runs the quick checks; prints, per patch, which properties fire (exit 1), cannot decide (exit 2) or stay silent."""
import os
import sys
import multiprocessing as mp

sys.path.insert(0, os.path.dirname(os.path.dirname(os.path.abspath(__file__))))


def job(args):
    path, prop = args
    from selftest.harness import PatchVariant
    from run import run_property
    from engine.report import load_known
    ov = PatchVariant(prop, 'twin', os.path.basename(path), path).overlay()
    if ov is None:
        return path, prop, 'NOAPPLY', ''
    rep = run_property(prop, 'quick', 0, None, ov, quiet=True, write=False)
    known = {(k['rule'], k['construct']) for k in load_known() if k.get('property') == prop}
    new = [i for i in rep.violations() if (i.rule, i.construct) not in known]
    if new:
        return path, prop, 'FIRES', '; '.join('%s %s: %s' % (i.rule, i.construct, i.detail[:160]) for i in new[:2])
    if rep.exit_code == 2:
        return path, prop, 'UNDECIDED', '; '.join(rep.lines)[:300]
    return path, prop, 'silent', ''


def main():
    args = sys.argv[1:]
    props = ['C%02d' % i for i in range(1, 21)]
    if args and args[0] == '--props':
        props = args[1].split(',')
        args = args[2:]
    jobs = [(p, pr) for p in args for pr in props]
    with mp.get_context('fork').Pool(12) as pool:
        res = pool.map(job, jobs, chunksize=1)
    for p in args:
        rs = [r for r in res if r[0] == p]
        loud = [r for r in rs if r[2] != 'silent']
        print('%s: %s' % (p, 'all %d silent' % len(rs) if not loud else ''))
        for _, prop, st, d in loud:
            print('   %s %s %s' % (prop, st, d))


if __name__ == '__main__':
    main()
