#!/bin/bash
# usage: refactor_check.sh <patch.diff>  -- applies a behaviour-preserving patch to /repo, runs ALL checks, reverts; prints non-zero exits
P=$1
cd /repo || exit 9
if [ -n "$(git status --porcelain)" ]; then echo "REPO-NOT-CLEAN"; exit 7; fi
if ! git apply --check "$P" 2>/dev/null; then echo "PATCH-DOES-NOT-APPLY $P"; exit 8; fi
git apply "$P"
trap 'git -C /repo checkout -- .' EXIT
trap "" PIPE
bad=0
for prop in C01 C02 C03 C04 C05 C06 C07 C08 C09 C10 C11 C12 C13 C14 C15 C16 C17 C18 C19 C20; do
  out=$(cd /verif && /venv/bin/python run.py $prop --tier quick 2>&1); rc=$?
  if [ $rc -ne 0 ]; then bad=1; echo "== $prop exit=$rc"; echo "$out" | grep -E "ANALYSIS-ERROR|^  prettyprinter" | cut -c1-330 | head -4; fi
done
git -C /repo checkout -- .
[ $bad -eq 0 ] && echo "all 20 silent"
