#!/venv/bin/python
"""Regenerates MANIFEST.json from the META tables of checks/cNN.py (single source of truth)."""
import importlib
import json
import os
import sys

HERE = os.path.dirname(os.path.abspath(__file__))
sys.path.insert(0, HERE)

PY = '/venv/bin/python'
NA_PENDING = 'check not implemented yet (build in progress, see DESIGN.md section 10)'


def main():
    props = [json.loads(l)['id'] for l in open(os.path.join(HERE, 'properties.jsonl'))]
    checks, na, served = [], [], []
    for pid in props:
        path = os.path.join(HERE, 'checks', pid.lower() + '.py')
        meta = None
        if os.path.exists(path):
            mod = importlib.import_module('checks.' + pid.lower())
            meta = getattr(mod, 'META', None)
        if not meta:
            na.append({'property_id': pid, 'reason': NA_PENDING})
            continue
        if meta.get('not_applicable'):
            na.append({'property_id': pid, 'reason': meta['not_applicable']})
            continue
        served.append(pid)
        checks.append({
            'property_id': pid,
            'quick_cmd': '%s run.py %s --tier quick' % (PY, pid),
            'thorough_cmd': '%s run.py %s --tier thorough' % (PY, pid),
            'evidence_file': '/verif/evidence/%s.json' % pid,
            'replay_cmd_template': '%s run.py %s --replay {path}' % (PY, pid),
            'engine': 'static-rules',
            'level_claimed': {
                'category': 'other',
                'text': meta['text'],
                'design_ref': meta.get('design_ref', 'DESIGN.md section 4, ' + pid),
            },
            'level_note': meta['note'],
            'technique': meta['technique'],
        })
    man = {
        'version': 1,
        'setup_cmd': '%s -m compileall -q engine checks selftest run.py' % PY,
        'hooks': {
            'guard': 'PRETTYPRINTER_VERIF',
            'enable': 'no hook exists or is needed: every check parses /repo/prettyprinter/**/*.py '
                      'from the working tree with ast on every run and never imports or runs the package',
            'baseline_off_cmd': 'cd /repo && /venv/bin/python -m pytest -ra -q -p no:cacheprovider '
                                '--timeout=900 --continue-on-collection-errors',
            'source_commits': [],
            'add_only': True,
        },
        'engines': [{
            'name': 'static-rules',
            'path': '/verif/engine',
            'serves_properties': served,
            'kind_free_text': 'repository-specific static analysis in pure stdlib Python: ast loader/resolver, '
                              'syntax-directed guard facts, structured typestate dataflow, stack-machine branch '
                              'facts, canonical linear forms, doc-shape abstract interpreter, effect inventory, '
                              'foreign-class attribute universes',
        }],
        'checks': checks,
        'notes': 'Technique family: static analysis only (see DESIGN.md). Exit 0 = all rule instances hold '
                 '(known findings printed as KNOWN-FINDING); exit 1 = VIOLATION; exit 2 = ANALYSIS-ERROR '
                 '(analysis could not be carried out; never a silent pass).',
        'not_applicable': na,
    }
    with open(os.path.join(HERE, 'MANIFEST.json'), 'w') as f:
        json.dump(man, f, indent=1)
    print('MANIFEST.json: %d checks, %d not applicable' % (len(checks), len(na)))


if __name__ == '__main__':
    main()
